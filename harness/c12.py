"""C12 - snippet returns exactly n samples starting exactly at the requested time.

Discrete part on deep pipelines: spec/Pipeline.tla (instance MC_PipelineSnip: snippet
composed with the other time-axis operations) + c01.run_pipeline(want=C12) replay.
spec/Snippet.tla: operational transcription of snippet (int(t) truncation, residual
shift i - t, time_shift(crop=True) of ShiftOps, re-stamping, z[i:i+n]) vs the
declarative statement; MC + a negative configuration (round instead of int).
Gen_Snippet: every request within bounds in the three forms of t, replayed on
pb.snippet; fractional t is compared with TLC's DFT-interpolated samples
(Gen_Delay, Mode "snip"), whole t bitwise with z[t:t+n]."""
import random
from fractions import Fraction

import numpy as np

import exact
import tlc
import shiftlib as sl
import c01
import common
from common import pb, u, Time, da, materialise

PID = "C12"
KINDS = sl.DTYPES         # native widths, integer data, non-native byte order, extended precision (plain Signal: no dtype contract)
REAL = tuple(k for k in KINDS if sl.is_real(k))
INTS = tuple(k for k in KINDS if k not in sl.NATIVE)     # result dtype not stated for these: values are judged
EPOCHS = [Time("2020-01-01T00:00:00", format="isot", precision=9), Time(58849.123456789, format="mjd"),
          Time("2031-07-14T23:59:59.999999", format="isot", precision=9)]
DAY52 = Fraction(1, 2 ** 52)
SSHS = [(), (2,), (1, 2), (3, 2), (2, 3)]


def variants(case, idx, rnd, n):
    out = []
    for j in range(n):
        kind = sl.KIND_CYCLE[(idx + j) % len(sl.KIND_CYCLE)]
        ssh = SSHS[(idx // len(sl.KIND_CYCLE) + j) % len(SSHS)]
        cls = "BasebandSignal" if kind in ("c16", "c8") and ssh and rnd.random() < 0.4 else "Signal"
        out.append({"kind": kind, "ssh": list(ssh), "cls": cls, "dask": rnd.random() < 0.2,
                    "rate": rnd.randrange(len(sl.RATES)), "epoch": rnd.randrange(len(EPOCHS)),
                    "tnum": rnd.choice(["int", "float", "np"]), "nnum": rnd.choice(["int", "np"]), "hist": rnd.randrange(3),
                    "tpick": rnd.randrange(64), "npick": rnd.randrange(64)})
    return out


def t_argument(case, var, z):
    """t in the requested form, and the number of samples the code will derive from it
    (the same astropy expression the code evaluates) for boundary classification"""
    tq, form = case["tq"], case["form"]
    ts = tq / 4
    if form == "count":
        if tq % 4 == 0 and var["tnum"] == "int":
            return int(ts), Fraction(tq, 4)
        if tq % 4 == 0 and var["tnum"] == "np":
            # a NumPy integer scalar of any width that holds it; small widths only for requests within bounds
            # (t + n beyond the width of t itself is NumPy's overflow rule, not the property's subject)
            ok = tq >= 0 and case["n"] >= 0 and tq + 4 * case["n"] <= 4 * case["len"]
            return (sl.int_scalar(int(ts), var.get("tpick", 0))[0] if ok else np.int64(ts)), Fraction(tq, 4)
        return (np.float64(ts) if var["tnum"] == "np" else float(ts)), Fraction(tq, 4)
    if form == "duration":
        t = ts * z.dt
        return t, exact.frac(float((t * z.sample_rate).to_value(u.one)))
    if z.start_time is None:
        return EPOCHS[var["epoch"]] + ts * z.dt, None
    t = z.start_time + ts * z.dt
    return t, exact.frac(float((((t - z.start_time).to(u.s)) * z.sample_rate).to_value(u.one)))


def replay_case(tab, case, var):
    out = []
    info = {"ambiguous": 0, "resolution_limited": 0, "history": 0}
    N, tq, n, form, decl = case["len"], case["tq"], case["n"], case["form"], case["decl"]
    ssh = tuple(var["ssh"])
    real = var["kind"] in REAL
    data, cols = sl.build_data(tab, N, ssh, real, KINDS[var["kind"]])
    start = EPOCHS[var["epoch"]] if case["hasT"] else None
    z = sl.make_signal(data, var["cls"], sl.RATES[var["rate"]], start, var["dask"])
    t, seen = t_argument(case, var, z)
    narg = sl.int_scalar(n, var.get("npick", 6))[0] if var["nnum"] == "np" else n      # np.int8 ... np.uint64
    what = "snippet(len=%d, t=%g samples as %s, n=%d; %s %s sample shape %r%s%s)" % (
        N, tq / 4, form, n, var["kind"], var["cls"], ssh, ", dask" if var["dask"] else "", "" if case["hasT"] else ", no start time")
    # decision boundaries of the float t the code derives from a Quantity / Time
    if seen is not None and form != "count":
        ok_abs = not (tq < 0 or tq + 4 * n > 4 * N)
        ok_seen = not (seen < 0 or seen + n > N)
        boundary = n >= 0 and ok_abs != ok_seen
    else:
        boundary = False
    m0 = sl.meta_of(z)
    before = (common.snapshot(t), common.snapshot(narg), common.snapshot(z))
    try:
        y = pb.snippet(z, t, narg)
        raised = None
    except Exception as e:  # noqa
        y, raised = None, e
    if boundary and isinstance(raised, ValueError):
        # the float sample count derived from the Quantity / Time lies across the bound: refusing is acceptable
        # (a returned result is judged like any other)
        info["ambiguous"] += 1
        return out, info
    # ---- the caller's objects still denote what the caller wrote down: nothing passed in is modified ...
    after = (common.snapshot(t), common.snapshot(narg), common.snapshot(z))
    for nm, b, a_ in zip(("t", "n", "z"), before, after):
        dd = common.snap_diff(b, a_)
        if dd:
            out.append(("snippet:argument-modified:%s:%s" % (nm, form), "%s modified its argument %s (%s)" % (what, nm, dd)))
    # ---- ... so the very same objects passed again denote the same request
    try:
        yy = pb.snippet(z, t, narg)
        again = None
    except Exception as e:  # noqa
        yy, again = None, e
    rep = None
    if (raised is None) != (again is None) or (raised is not None and type(raised) is not type(again)):
        rep = "first call %s, second call %s" % ("returned" if raised is None else repr(raised), "returned" if again is None else repr(again))
    elif raised is None:
        if len(yy) != len(y) or common.snap_diff(common.snapshot(yy.start_time), common.snapshot(y.start_time)) or \
                not np.array_equal(materialise(yy), materialise(y)):
            rep = "second call returned another signal"
    if rep:
        out.append(("snippet:repeat-call-differs:" + form, "%s with the same argument objects again: %s" % (what, rep)))
    if decl["err"]:
        if raised is None:
            out.append(("snippet:no-refusal:" + refusal_class(case), "%s was expected to raise ValueError, returned %r" % (what, y)))
        elif not isinstance(raised, ValueError):
            out.append(("snippet:wrong-exception:" + refusal_class(case), "%s raised %r, expected ValueError" % (what, raised)))
        return out, info
    if raised is not None:
        out.append(("snippet:raised:" + form, "%s raised %r" % (what, raised)))
        return out, info
    # ---- exactly n samples, metadata otherwise unchanged
    d = sl.meta_diff(m0, sl.meta_of(y), skip=("start",) + (("dtype",) if var["kind"] in INTS else ()))
    if d or y.shape[1:] != z.shape[1:]:
        out.append(("snippet:metadata", "%s changed %s" % (what, d)))
    if len(y) != n:
        out.append(("snippet:length:" + form, "%s returned %d samples" % (what, len(y))))
        return out, info
    # ---- start exactly at the requested time
    dt_days = 1 / (exact.frac(float(z.sample_rate.to_value(u.Hz))) * 86400)
    if case["hasT"]:
        if y.start_time is None:
            out.append(("snippet:start-time:" + form, "%s lost the start time" % what))
        else:
            got = exact.time_frac_days(y.start_time)
            want = exact.time_frac_days(start) + Fraction(tq, 4) * dt_days
            tol = 8 * DAY52 + abs(Fraction(tq, 4) * dt_days) * Fraction(1, 2 ** 48)
            if abs(got - want) > tol:
                out.append(("snippet:start-time:" + form, "%s start_time off by %.3g samples (%.3g s)"
                            % (what, float((got - want) / dt_days), float((got - want) * 86400))))
    elif y.start_time is not None:
        out.append(("snippet:start-time:" + form, "%s start_time appeared from nowhere" % what))
    if n == 0:
        return out, info
    # ---- the samples
    a = materialise(y).reshape(n, -1)
    xin = materialise(z).reshape(N, -1)
    i = tq // 4
    if tq % 4 == 0 and form == "count":
        if not (a.dtype == xin.dtype and np.array_equal(a, xin[i:i + n])):
            out.append(("snippet:whole-sample-slice", "%s is not bitwise z[%d:%d]" % (what, i, i + n)))
        return out, info
    # time resolution of the Quantity / Time form, in samples
    delta = abs(float(seen - Fraction(tq, 4))) if seen is not None else 0.0
    if delta > 1e-7:
        info["resolution_limited"] += 1          # "same result up to time resolution": data not comparable at 1e-5
        return out, info
    scale = float(np.abs(xin).max())
    tol = (1e-5 + 8 * N * delta) * scale
    for j, c in enumerate(cols):
        if tq % 4 == 0:
            exp = xin[i:i + n, j].astype(np.complex128)
        else:
            e = tab.get(N, c, 4 * i - tq)
            exp = (e["yr"] if real else e["yc"])[i:i + n]
        err = np.abs(a[:, j].astype(np.complex128) - exp)
        if err.max() > tol:
            k = int(err.argmax())
            out.append(("snippet:value:%s:%s" % ("whole" if tq % 4 == 0 else "fractional", form),
                        "%s: element %d sample %d = %r, TLC expects %r (tol %.2g)"
                        % (what, j, k, complex(a[k, j]), complex(exp[k]), tol)))
            break
    out += history(z, case, var, t, narg, what, info)
    return out, info


def _same(a, b):
    try:
        r = a == b
        return bool(r.all()) if isinstance(r, np.ndarray) else bool(r)
    except Exception:  # noqa
        return repr(a) == repr(b)


def history(z, case, var, t, narg, what, info):
    """same object, later call: after a sanctioned in-place change of z's data, snippet(z, t, n) is what
    the same request gives on a fresh signal holding the new data"""
    if var["dask"]:
        return []
    g = sl.inplace_update(z, var.get("hist", 0), var["kind"])
    if g is None:
        return []
    try:
        fresh = sl.fresh_copy(z)
        tf, _ = t_argument(case, var, fresh)
        y2, yf = pb.snippet(z, t, narg), pb.snippet(fresh, tf, narg)
    except Exception as e:  # noqa
        return [("snippet:raised:" + case["form"], "%s after an in-place update of the data raised %r" % (what, e))]
    info["history"] = 1
    a2 = materialise(y2).astype(np.complex128)
    af = materialise(yf).astype(np.complex128)
    if a2.shape != af.shape or not np.allclose(a2, af, rtol=0, atol=1e-5 * max(1.0, float(np.abs(materialise(z)).max()))):
        return [("snippet:stale-after-inplace-update:" + ("whole" if case["tq"] % 4 == 0 else "fractional"),
                 "%s: after data *= %r in place the same object gives %r..., a fresh signal with the new data %r..."
                 % (what, g, a2.ravel()[:2].tolist(), af.ravel()[:2].tolist()))]
    return []


def refusal_class(case):
    if case["n"] < 0:
        return "negative-n"
    if case["form"] == "time" and not case["hasT"]:
        return "time-without-start"
    if case["tq"] < 0:
        return "t-negative"
    return "t+n-beyond-end"


def sub_table(tab, case):
    N = case["len"]
    out = {"x": {}, "e": {}}
    for c in range(tab.ncols):
        out["x"][str(c)] = [[v.real, v.imag] for v in tab.col(N, c)]
        for q in (-1, -2, -3):
            e = tab.get(N, c, q)
            out["e"]["%d,%d" % (c, q)] = {"zero": e["zero"], "yc": [[v.real, v.imag] for v in e["yc"]],
                                          "yr": None if e["yr"] is None else list(e["yr"])}
    return out


def run_replay(chk, tab, cases, rnd, limit, nvar):
    cases = [c for c in cases if tab.has(c["len"], -1)]
    # stratify: refusals by class, successes by (form, whole/fractional, edge kind)
    by = {}
    for c in cases:
        if c["decl"]["err"]:
            k = ("err", refusal_class(c), c["form"])
        else:
            edge = "n=0" if c["n"] == 0 else "n=len" if c["n"] == c["len"] else \
                "t+n=len" if c["tq"] + 4 * c["n"] == 4 * c["len"] else "inner"
            k = ("ok", c["form"], c["tq"] % 4 == 0, edge, c["hasT"])
        by.setdefault(k, []).append(c)
    per = max(1, limit // len(by))
    chosen = []
    for k in sorted(by, key=str):
        chosen += by[k] if len(by[k]) <= per else rnd.sample(by[k], per)
    tot = {"ambiguous": 0, "resolution_limited": 0, "history": 0}
    strata = {}
    shown = 0
    for idx, case in enumerate(chosen):
        for var in variants(case, idx, rnd, nvar):
            res, info = replay_case(tab, case, var)
            chk.validated += 1
            for k in tot:
                tot[k] += info[k]
            for key, desc in res:
                chk.violation(key, desc, {"kind": "gen", "case": case, "var": var, "table": sub_table(tab, case)})
        k = "refused:" + refusal_class(case) if case["decl"]["err"] else "%s:%s" % (case["form"], "whole" if case["tq"] % 4 == 0 else "fractional")
        strata[k] = strata.get(k, 0) + 1
        if shown < 4 and not case["decl"]["err"] and case["tq"] % 4 and case["n"] >= 2:
            shown += 1
            chk.sample(case)
    chk.notes["replayed_by_class"] = strata
    chk.notes["generated_requests"] = len(cases)
    chk.notes.update(tot)


def forms_at_length(chk, rnd, thorough):
    """the three forms of t denote one instant, on longer signals (no TLC expectation
    of the data needed: the count form is the reference, itself checked above)"""
    n_checked = 0
    for N in ([64, 1000, 1023] + ([4096, 17] if thorough else [])):
        x = np.cumsum(np.array([rnd.uniform(-1, 1) for _ in range(N)])) + 3.0
        for ri in (0, 1, 2, 8, 9, 10):                 # rates up to kHz: Time resolution << 1e-7 sample
            for ep in EPOCHS:
                z = pb.Signal(x.copy(), sample_rate=sl.RATES[ri][0] * sl.RATES[ri][1], start_time=ep)
                for _ in range(6 if thorough else 2):
                    n = rnd.randint(0, N // 2)
                    tqs = [4 * rnd.randint(0, N - n), 4 * rnd.randint(0, N - n - 1) + rnd.choice([1, 2, 3]), 4 * (N - n), 0]
                    for tq in tqs:
                        ts = tq / 4
                        try:
                            ref = pb.snippet(z, ts if tq % 4 else int(ts), n)
                        except Exception as e:  # noqa
                            chk.violation("snippet:raised:count", "snippet(len=%d, t=%g as count, n=%d) raised %r" % (N, ts, n, e),
                                          {"kind": "forms", "N": N, "rate": ri, "epoch": EPOCHS.index(ep), "tq": tq, "n": n,
                                           "form": "count", "x": x.tolist()})
                            continue
                        for form, t in (("duration", ts * z.dt), ("time", ep + ts * z.dt)):
                            if form == "duration":
                                seen = exact.frac(float((t * z.sample_rate).to_value(u.one)))
                            else:
                                seen = exact.frac(float((((t - z.start_time).to(u.s)) * z.sample_rate).to_value(u.one)))
                            delta = abs(float(seen - Fraction(tq, 4)))
                            case = {"kind": "forms", "N": N, "rate": ri, "epoch": EPOCHS.index(ep), "tq": tq, "n": n, "form": form, "x": x.tolist()}
                            try:
                                y = pb.snippet(z, t, n)
                            except Exception as e:  # noqa
                                if isinstance(e, ValueError) and (seen < 0 or seen + n > N):
                                    chk.notes["ambiguous"] = chk.notes.get("ambiguous", 0) + 1      # across the bound: may refuse
                                    continue
                                chk.violation("snippet:raised:" + form, "snippet(len=%d, t=%g as %s, n=%d) raised %r" % (N, ts, form, n, e), case)
                                continue
                            n_checked += 1
                            bad = forms_compare(ref, y, n, delta, N, x)
                            if bad:
                                chk.violation("snippet:forms-disagree:" + form,
                                              "snippet(len=%d, t=%g samples, n=%d) as %s vs as a sample count: %s" % (N, ts, n, form, bad), case)
    chk.validated += n_checked
    chk.notes["forms_compared_at_length"] = n_checked


def whole_offsets(chk, thorough):
    """every whole offset k given as a duration or a Time at rates where k / rate * rate != k in floating point,
    with the snippet ending exactly at the last sample (t + n == len) and in the interior"""
    n_checked = 0
    for N in ((64, 100) if not thorough else (64, 100, 257)):
        x = np.arange(1.0, N + 1.0)
        for ri in (2, 8, 10, 9, 1):                       # 7 Hz, 10 Hz, 100 Hz, 3 kHz, 1 kHz
            rate = sl.RATES[ri][0] * sl.RATES[ri][1]
            z = pb.Signal(x.copy(), sample_rate=rate, start_time=EPOCHS[ri % len(EPOCHS)])
            for k in range(N + 1):
                for n in sorted({N - k, max(0, (N - k) // 2)}):
                    for form, t in (("duration", k * z.dt), ("duration", (k / rate).to(u.s)), ("time", z.start_time + k * z.dt)):
                        if form == "duration":
                            seen = exact.frac(float((t * z.sample_rate).to_value(u.one)))
                        else:
                            seen = exact.frac(float((((t - z.start_time).to(u.s)) * z.sample_rate).to_value(u.one)))
                        case = {"kind": "whole", "N": N, "rate": ri, "k": k, "n": n, "form": form}
                        what = "snippet(len=%d, t=%d samples as %s at %s, n=%d)" % (N, k, form, rate, n)
                        try:
                            y = pb.snippet(z, t, n)
                        except Exception as e:  # noqa
                            if isinstance(e, ValueError) and seen + n > N:
                                chk.notes["ambiguous"] = chk.notes.get("ambiguous", 0) + 1
                            else:
                                chk.violation("snippet:raised:" + form, "%s raised %r" % (what, e), case)
                            continue
                        n_checked += 1
                        if len(y) != n:
                            chk.violation("snippet:length:" + form, "%s returned %d samples" % (what, len(y)), case)
                        elif n and np.abs(np.asarray(y.data) - x[k:k + n]).max() > 1e-5 * N * (1 + 8 * abs(float(seen - k)) * 1e5):
                            chk.violation("snippet:value:whole:" + form, "%s is not z[%d:%d]" % (what, k, k + n), case)
    chk.validated += n_checked
    chk.notes["whole_offsets_as_duration_or_time"] = n_checked


def small_integer_requests(chk):
    """n (and whole t) as NumPy integer scalars whose own width cannot hold t + n"""
    N = 1000
    x = np.arange(1.0, N + 1.0)
    z = pb.Signal(x, sample_rate=1 * u.kHz, start_time=EPOCHS[0])
    count = 0
    for t, n, ty in [(100, 200, "uint8"), (900, 200, "uint8"), (100, 100, "int8"), (950, 100, "int8"), (700, 255, "uint8"),
                     (40000 % N, 300, "int16"), (990, 11, "int8"), (0, 127, "int8"), (873, 127, "int8"), (874, 127, "int8")]:
        for tt in (t, float(t) + 0.5 if t + n < N else float(t), t * z.dt, z.start_time + t * z.dt):
            tv = t + 0.5 if isinstance(tt, float) and tt != t else t
            narg = np.dtype(ty).type(n)
            case = {"kind": "smallint", "t": t, "n": n, "ty": ty}
            what = "snippet(len=%d, t=%r, n=np.%s(%d))" % (N, tt, ty, n)
            valid = tv + n <= N
            if tv + n == N and not isinstance(tt, (int, float)):
                continue                       # bound of the derived float count: covered by whole_offsets
            count += 1
            try:
                y = pb.snippet(z, tt, narg)
            except ValueError as e:
                if valid:
                    chk.violation("snippet:raised:small-integer-n", "%s raised %r" % (what, e), case)
                continue
            except Exception as e:  # noqa
                chk.violation("snippet:wrong-exception:small-integer-n", "%s raised %r" % (what, e), case)
                continue
            if not valid:
                chk.violation("snippet:no-refusal:small-integer-n", "%s goes beyond the end but returned %d samples" % (what, len(y)), case)
            elif len(y) != n or (tv == t and not np.allclose(np.asarray(y.data), x[t:t + n], rtol=0, atol=0 if isinstance(tt, (int, float)) else 1e-2)):
                chk.violation("snippet:length:small-integer-n", "%s returned %d samples starting with %s" % (what, len(y), np.asarray(y.data)[:1]), case)
    chk.validated += count


def forms_compare(ref, y, n, delta, N, x):
    if len(y) != len(ref):
        return "length %d vs %d" % (len(y), len(ref))
    d = abs(exact.time_frac_days(y.start_time) - exact.time_frac_days(ref.start_time))
    if d > 8 * DAY52:
        return "start_time differs by %.3g s" % float(d * 86400)
    if n and delta <= 1e-7:
        err = np.abs(np.asarray(y.data) - np.asarray(ref.data)).max()
        if err > (1e-5 + 8 * N * delta) * np.abs(x).max():
            return "data differ by %.3g" % err
    return None


# ------------------------------------------------------------------ long signals (code -> Trace_Shift "snip")
LONG_RATES = [0, 1, 2, 8, 9]         # up to kHz: Time arithmetic resolves << 1e-6 sample
LONG_EPOCH = Time("2021-03-04T05:06:07", format="isot", precision=9)


def long_params(rnd, thorough):
    """requests far into long signals, every form of t; t + n near len; fractional overshoots"""
    out = []
    lens = [(100003, "np"), (1 << 17, "dask"), (1000000, "np"), (10000000, "lazy")]
    if thorough:
        lens += [(1 << 20, "dask"), (300007, "np"), (3000000, "lazy")]
    for N, back in lens:
        real = rnd.random() < 0.4
        k = rnd.randint(1, N // 8) * (1 if real else rnd.choice([1, -1]))
        reqs = []
        for _ in range(3 if thorough else 2):
            n = rnd.randint(1, 64)
            frac = rnd.choice([0.4, 0.25, 0.5, 0.75, 0.123, 0.3, 0.9])
            reqs.append((float(rnd.randint(N // 2, N - n - 1)) + frac, n))          # far from the start, fractional
        n = rnd.randint(1, 64)
        reqs.append((float(N - n) - 0.5, n))                                        # last valid fractional start
        reqs.append((float(N - n) + rnd.choice([0.3, 0.25, 0.6]), n))              # beyond the end by a fraction
        reqs.append((float(rnd.randint(N // 2, N - n)), n))                         # whole, far
        reqs.append((float(N - n), n))                                              # t + n == len
        reqs.append((-0.3, 1))
        reqs.append((float(rnd.randint(N // 3, N - 1)) + 0.4, 0))
        for t, n in reqs:
            for form in ("count", "duration", "time"):
                out.append({"N": N, "back": back, "real": real, "k": k, "t": t, "n": n, "form": form,
                            "rate": rnd.choice(LONG_RATES), "hasT": form == "time" or rnd.random() < 0.8,
                            "pick": rnd.randrange(1 << 30)})
    return out


_LONG_CACHE = {}


def long_signal(p):
    key = (p["N"], p["back"], p["real"], p["k"])
    if key not in _LONG_CACHE:
        _LONG_CACHE.clear()                      # one long array at a time
        N, k = p["N"], p["k"]
        if p["back"] == "lazy":                  # never computed: only length / start time / refusals are observed
            m = da.arange(N, chunks=(N,))
            th = (2 * np.pi / N) * ((k * m) % N)
            x = 2.0 + da.cos(th) if p["real"] else da.exp(1j * th)
        else:
            m = np.arange(N)
            th = (2 * np.pi / N) * ((k * m) % N)
            x = 2.0 + np.cos(th) if p["real"] else np.exp(1j * th)
            if p["back"] == "dask":
                x = da.from_array(x, chunks=(N,))
        _LONG_CACHE[key] = x
    x = _LONG_CACHE[key]
    r = sl.RATES[p["rate"]]
    return pb.Signal(x, sample_rate=r[0] * r[1], start_time=LONG_EPOCH if p["hasT"] else None)


def drive_long(p, eid):
    z = long_signal(p)
    N, n, form = p["N"], p["n"], p["form"]
    rate = exact.frac(float(z.sample_rate.to_value(u.Hz)))
    t0 = exact.time_frac_days(LONG_EPOCH)
    if form == "count":
        targ = int(p["t"]) if float(p["t"]).is_integer() and p["pick"] % 2 else p["t"]
        treq = exact.frac(float(p["t"]))
    elif form == "duration":
        targ = (p["t"] / z.sample_rate).to(u.s)
        treq = exact.frac(float(targ.to_value(u.s))) * rate
    else:
        targ = LONG_EPOCH + (p["t"] / z.sample_rate).to(u.s)
        treq = (exact.time_frac_days(targ) - t0) * 86400 * rate
    res = 8 * DAY52 * 86400 * rate + abs(treq) * Fraction(1, 2 ** 47) + Fraction(1, 10 ** 12)
    ev = {"id": eid, "ev": "snip", "N": N, "k": p["k"], "real": p["real"], "n": n, "form": form, "hasT": p["hasT"],
          "t": exact.rat(treq), "res": exact.rat(res), "refused": False, "len": -1, "off": exact.rat(0), "probes": []}
    other = None
    try:
        y = pb.snippet(z, targ, n)
    except ValueError:
        ev["refused"] = True
        return ev, other
    except Exception as e:  # noqa
        ev["refused"] = True
        return ev, "raised %r" % (e,)
    ev["len"] = len(y)
    if p["hasT"]:
        if y.start_time is None:
            other = "start time lost"
        else:
            ev["off"] = exact.rat((exact.time_frac_days(y.start_time) - t0) * 86400 * rate)
    elif y.start_time is not None:
        other = "start time from nowhere"
    if p["back"] != "lazy" and len(y) > 0:
        a = materialise(y)
        rr = random.Random(p["pick"])
        for j in sorted({0, len(y) - 1, rr.randrange(len(y)), rr.randrange(len(y))}):
            ev["probes"].append({"j": j, "y": exact.cfix(complex(a[j]))})
    return ev, other


def long_signals(rnd, thorough):
    """-> (violations [(key, desc, case)], tlc runs, n validated, notes, sample); applied to chk by the caller
    (this part runs side by side with the other TLC jobs)"""
    params = long_params(rnd, thorough)
    events, viol = [], []
    for i, p in enumerate(params):
        if p["form"] == "time" and not p["hasT"]:
            continue
        ev, other = drive_long(p, i)
        if other:
            viol.append(("snippet:long:" + other.split(" ")[0], "snippet on a %d-sample signal, %r: %s" % (p["N"], p, other),
                         {"kind": "long", "p": p}))
        events.append(ev)
    _LONG_CACHE.clear()

    class Runs:                       # collects the TLC results like a Check would
        def __init__(self):
            self.runs = []

        def add_tlc(self, name, r, exhaustive=False):
            self.runs.append((name, r))
    runs = Runs()
    rejected, n = sl.validate("Trace_Shift", events, chk=runs, name="snip", batch=max(20, len(events) // 3 + 1), par=3)
    for ev, failed in rejected:
        p = params[ev["id"]]
        viol.append(("snippet:long:%s:%s" % ("+".join(sorted(failed)), p["form"]),
                     "snippet(len=%d, t=%r samples as %s, n=%d) on a tone: TLC rejects %s (refused=%s, len=%s, start offset %s samples)"
                     % (p["N"], p["t"], p["form"], p["n"], sorted(failed), ev["refused"], ev["len"],
                        float(exact.unrat(ev["off"]))), {"kind": "long", "p": p}))
    notes = {"long_signal_requests": n, "long_signal_lengths": sorted({p["N"] for p in params})}
    e = events[0]
    sample = {"long": params[e["id"]], "observed": {"refused": e["refused"], "len": e["len"], "off": float(exact.unrat(e["off"]))}}
    return viol, runs.runs, n, notes, sample


def run(chk):
    thorough = chk.tier == "thorough"
    rnd = random.Random(chk.seed)
    t = "full" if thorough else "quick"
    res = sl.parallel({
        # replay of generated pipelines (shared replayer); the model checking of Pipeline.tla is done on the
        # C12 instance below (snippet with the other time-axis operations), not on C01's all-operations instance
        "pipeline": lambda: c01.run_pipeline(chk, want=("C12",), mc=None),
        "mcpipe": lambda: tlc.run("MC_PipelineSnip", "MC_PipelineSnip_%s.cfg" % t, workers=6, timeout=3000, heap="3g"),
        "mc": lambda: tlc.run("MC_Snippet", "MC_Snippet_%s.cfg" % t, workers=2, timeout=3000, heap="3g"),
        "neg": lambda: tlc.run("MC_Snippet", "Neg_Snippet_round.cfg", workers=1, timeout=900, heap="1g"),
        "cases": lambda: sl.gen("Gen_Snippet", "Gen_Snippet_%s.cfg" % t, workers=2),
        "table": lambda: sl.gen("Gen_Delay", "Gen_Delay_snip_%s.cfg" % t, workers=4, timeout=3000),
        "long": lambda: long_signals(random.Random(chk.seed + 7919), thorough),
    })
    chk.mc_must_hold("MC_PipelineSnip_" + t, res["mcpipe"])
    chk.mc_must_hold("MC_Snippet_" + t, res["mc"])
    chk.exhaustive = res["mcpipe"].ok and res["mc"].ok
    chk.add_tlc("Neg_Snippet_round (must be rejected)", res["neg"])
    if res["neg"].ok or res["neg"].violation is None:
        chk.machinery_errors.append("the wrong model (round instead of int) was not rejected by TLC: %s" % res["neg"].stdout[-1500:])
    chk.notes["negative_config"] = "Neg_Snippet_round.cfg rejected: %s" % res["neg"].violation
    for k in ("cases", "table"):
        chk.add_tlc("gen:" + k, res[k][0])
        if not res[k][0].ok:
            chk.machinery_errors.append("generation %s failed: %s" % (k, res[k][0].stdout[-2000:]))
    tab = sl.Table(res["table"][1])
    run_replay(chk, tab, res["cases"][1], rnd, 30000 if thorough else 3000, 2 if thorough else 1)
    forms_at_length(chk, rnd, thorough)
    whole_offsets(chk, thorough)
    small_integer_requests(chk)
    viol, runs, nl, notes, sample = res["long"]
    for name, r in runs:
        chk.add_tlc(name, r)
    for key, desc, case in viol:
        chk.violation(key, desc, case)
    chk.validated += nl
    chk.notes.update(notes)
    chk.sample(sample)
    chk.assumptions += [
        "TLC explores Snippet / Pipeline exhaustively only within the constants of the MC configurations",
        "fractional t: TLC's DFT-interpolated samples (N <= 8) at 1e-5*max|x|; whole t as a sample count: bitwise z[t:t+n]",
        "long signals (1e5..1e7 samples, NumPy / Dask / never-computed Dask): tone probes, every form of t far from the start and "
        "around t + n = len; refusal, length, exact start offset and sampled output values decided by TLC (Trace_Shift 'snip')",
        "duration / Time forms: judged up to the time resolution of the float sample count the code derives "
        "(requests whose bounds check flips under that rounding are counted `ambiguous`, data not compared when the "
        "resolution exceeds 1e-7 sample)",
    ]


def replay(doc):
    c = doc["case"]
    if c["kind"] == "pipeline":
        return c01.replay(doc)
    bad = []
    if c["kind"] in ("whole", "smallint"):
        class Collect:
            def __init__(self):
                self.notes, self.validated, self.v = {}, 0, []

            def violation(self, key, desc, case):
                if case == c:
                    self.v.append((key, desc))
        col = Collect()
        whole_offsets(col, True) if c["kind"] == "whole" else small_integer_requests(col)
        bad = col.v
    elif c["kind"] == "long":
        ev, other = drive_long(c["p"], 0)
        rejected, _ = sl.validate("Trace_Shift", [ev], batch=10, par=1)
        bad = [("snippet:long", "TLC rejects %s" % f) for _, f in rejected] + ([("snippet:long", other)] if other else [])
    elif c["kind"] == "gen":
        tab = __import__("c03").JsonTable(c["case"]["len"], c["table"])
        bad, _ = replay_case(tab, c["case"], c["var"])
    else:
        x = np.array(c["x"])
        ep = EPOCHS[c["epoch"]]
        z = pb.Signal(x, sample_rate=sl.RATES[c["rate"]][0] * sl.RATES[c["rate"]][1], start_time=ep)
        ts = c["tq"] / 4
        try:
            ref = pb.snippet(z, ts if c["tq"] % 4 else int(ts), c["n"])
            if c["form"] == "count":
                r = None
            else:
                t = ts * z.dt if c["form"] == "duration" else ep + ts * z.dt
                y = pb.snippet(z, t, c["n"])
                r = forms_compare(ref, y, c["n"], 0.0, c["N"], x)
        except Exception as e:  # noqa
            r = "raised %r" % e
        bad = [("snippet:forms", r)] if r else []
    for key, desc in bad:
        print("VIOLATION property=%s replay=(this case)  # %s: %s" % (PID, key, desc))
    if not bad:
        print("case passes")
    return 1 if bad else 0
