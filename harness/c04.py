"""C04 - freq_shift moves the spectrum by the given amount, zeroing what leaves the band.

spec/FreqShift.tla (operational zero loop over the un-broadcast ft*N vs the
per-element declarative statement; MC + negative configuration of the
un-repaired loop), spec/Gen_FreqShift.tla + spec/Gen_Delay.tla (Mode "freq":
expected spectra and samples computed by TLC, replayed on pb.freq_shift),
spec/Trace_Shift.tla (impulse / tone probes at large N validated by TLC)."""
import random
from fractions import Fraction

import numpy as np

import exact
import tlc
import shiftlib as sl
from common import pb, u, Time, da, materialise

PID = "C04"
KINDS = {"c16": np.complex128, "c8": np.complex64}
EPOCH = Time("2021-03-04T05:06:07.891", format="isot", precision=9)
FUNITS = [u.Hz, u.kHz, u.MHz, u.mHz, 1 / u.s, u.Hz]      # exactly Hz twice: the unit the code converts to


def shape_tag(ssh, shsh):
    if len(shsh) == 0:
        return "scalar" if int(np.prod(ssh)) > 1 else "full-shape"
    P = sl.padded(shsh, len(ssh))
    return "broadcast-axis" if any(P[d] == 1 and ssh[d] > 1 for d in range(len(ssh))) else "full-shape"


def zero_tol(kind, N):
    """|Y| on a cleared bin, relative to sum|x|: 1e-6, or the float32 budget of the
    inverse FFT that follows the clearing (4 eps log2 N) when that is larger"""
    if kind == "c8":
        return max(1e-6, 4 * 6e-8 * max(1.0, np.log2(max(N, 2))))
    return 1e-6


def shift_quantity(bins, shsh, z, unit):
    """df = bins * sample_rate / N as a frequency Quantity of the given unit"""
    arr = np.asarray(bins, dtype=np.float64)
    arr = arr.reshape(shsh) if shsh else arr.reshape(())
    return (arr * z.sample_rate / len(z)).to(unit)


def make_df(case, var, z):
    """the shift Quantity of a generated case: zeros as -0.0 in some concretisations, in the variant's unit and memory layout"""
    df = shift_quantity(sl.lattice(case["S"], var.get("negzero", False)), tuple(case["shsh"]), z, FUNITS[var["unit"]])
    return sl.relayout(df, var.get("layout", "C")) if case["shsh"] else df


# ------------------------------------------------------------------ Gen -> code
def variants(case, idx, rnd, n):
    dual = len(case["ssh"]) == 2 and case["ssh"][1] == 2
    return [{"kind": ["c16", "c8"][(idx + j) % 2], "dask": rnd.random() < 0.2, "rate": rnd.randrange(len(sl.RATES)),
             "start": rnd.random() < 0.6, "unit": rnd.randrange(len(FUNITS)),
             "cls": "DualPolarizationSignal" if dual and rnd.random() < 0.5 else "BasebandSignal",
             "negzero": rnd.random() < 0.35,
             # memory layout of the shift argument, Dask chunking of the sample axes
             "layout": rnd.choice(sl.LAYOUTS), "chunks": rnd.randrange(5)} for j in range(n)]


def replay_case(tab, case, var):
    out = []
    info = {"boundary_cleared": 0, "boundary_kept": 0}
    N, ssh, shsh = case["N"], tuple(case["ssh"]), tuple(case["shsh"])
    data, cols = sl.build_data(tab, N, ssh, False, KINDS[var["kind"]])
    z = sl.make_signal(data, var.get("cls", "BasebandSignal"), sl.RATES[var["rate"]], EPOCH if var["start"] else None, var["dask"],
                       chunks=var.get("chunks"))
    df = make_df(case, var, z)
    tag = shape_tag(ssh, shsh)
    what = "freq_shift(N=%d, sample shape %r, shift %s bins shape %r, %s %s%s)" % (
        N, ssh, [s / 4 for s in case["S"]], shsh, var["kind"], var.get("cls", "BasebandSignal"), ", dask" if var["dask"] else "")
    m0 = sl.meta_of(z)
    try:
        y = pb.freq_shift(z, df)
    except Exception as e:  # noqa
        return [("freq_shift:raised", "%s raised %r" % (what, e))], info
    d = sl.meta_diff(m0, sl.meta_of(y))
    if d or y.shape != z.shape:
        out.append(("freq_shift:metadata", "%s changed %s (shape %r -> %r)" % (what, d, z.shape, y.shape)))
        if y.shape != z.shape:
            return out, info
    a = materialise(y).reshape(N, -1).astype(np.complex128)
    xin = materialise(z).reshape(N, -1).astype(np.complex128)
    # ---- the same argument objects passed again denote the same request (the first result is judged below
    #      against TLC's expectation, which was derived from the abstract case before any call)
    try:
        a2 = materialise(pb.freq_shift(z, df)).reshape(N, -1).astype(np.complex128)
        if not np.array_equal(a2, a):
            out.append(("freq_shift:repeat-call-differs:" + ("array" if shsh else "scalar"),
                        "%s (shift unit %s) called again with the same objects returns another result (max diff %.3g)"
                        % (what, FUNITS[var["unit"]], float(np.abs(a2 - a).max()) if a2.shape == a.shape else -1.0)))
    except Exception as e:  # noqa
        out.append(("freq_shift:raised", "%s called again with the same objects raised %r" % (what, e)))
    return out + judge(tab, case, var, a, xin, cols, what, tag, info), info


def judge(tab, case, var, a, xin, cols, what, tag, info):
    """a: result samples (N, elements), xin: input; against TLC's expected spectrum / samples per element"""
    out = []
    N = case["N"]
    Y = np.fft.fft(a, axis=0)
    for j, (c, q) in enumerate(zip(cols, case["qe"])):
        e = tab.get(N, c, q)
        M = float(np.abs(xin[:, j]).sum())
        ztol, stol = zero_tol(var["kind"], N) * M, 1e-5 * M
        bad = [k for k in e["zero"] if abs(Y[k, j]) > ztol]
        if bad:
            out.append(("freq_shift:zero-bins:" + tag,
                        "%s: element %d (shift %g bins): bins %s (fft order) must be zero, |Y| = %s at %s (limit %.2g)"
                        % (what, j, q / 4, e["zero"], [float(abs(Y[k, j])) for k in bad], bad, ztol)))
        cleared = False
        for k in range(N):
            if k in e["zero"]:
                continue
            ok = abs(Y[k, j] - e["spec"][k]) <= stol
            if k in e["free"] and not ok and abs(Y[k, j]) <= ztol:
                cleared = True                       # the unconstrained boundary bin was cleared
                continue
            if not ok:
                out.append(("freq_shift:spectrum:" + ("whole-bin" if q % 4 == 0 else "fractional"),
                            "%s: element %d (shift %g bins): bin %d is %r, TLC expects %r (tol %.2g)"
                            % (what, j, q / 4, k, complex(Y[k, j]), complex(e["spec"][k]), stol)))
                break
        if e["free"]:
            info["boundary_cleared" if cleared else "boundary_kept"] += 1
        if not cleared and not bad:
            tol = 1e-5 * float(np.abs(xin).max())
            err = np.abs(a[:, j] - e["y"])
            if err.max() > tol:
                k = int(err.argmax())
                out.append(("freq_shift:value:" + ("whole-bin" if q % 4 == 0 else "fractional"),
                            "%s: element %d (shift %g bins): sample %d = %r, TLC expects %r (tol %.2g)"
                            % (what, j, q / 4, k, complex(a[k, j]), complex(e["y"][k]), tol)))
    return out


def dask_group(tab, group, var):
    """Dask: several lazy results of equal geometry (same signal, different shifts) evaluated in ONE graph,
    each judged against its own expectation; and shift-after-shift chained lazily, against the eager chain"""
    import dask
    out = []
    info = {"boundary_cleared": 0, "boundary_kept": 0}
    N, ssh = group[0]["N"], tuple(group[0]["ssh"])
    data, cols = sl.build_data(tab, N, ssh, False, KINDS[var["kind"]])
    z = sl.make_signal(data, "BasebandSignal", sl.RATES[var["rate"]], EPOCH, True, chunks=var.get("chunks"))
    zn = sl.make_signal(data.copy(), "BasebandSignal", sl.RATES[var["rate"]], EPOCH, False)
    dfs = [make_df(c, var, z) for c in group]
    what = "freq_shift x%d on one Dask signal (N=%d, sample shape %r, shifts %s bins, shapes %s, %s), one dask.compute" % (
        len(group), N, ssh, [[s / 4 for s in c["S"]] for c in group], [tuple(c["shsh"]) for c in group], var["kind"])
    try:
        ys = [pb.freq_shift(z, df) for df in dfs]
        arrays = dask.compute(*[y.data for y in ys], scheduler="synchronous")
        chain = pb.freq_shift(pb.freq_shift(z, dfs[0]), dfs[1])
        lazy = np.asarray(chain.data.compute(scheduler="synchronous")).reshape(N, -1).astype(np.complex128)
        eager = np.asarray(pb.freq_shift(pb.freq_shift(zn, dfs[0]), dfs[1]).data).reshape(N, -1).astype(np.complex128)
    except Exception as e:  # noqa
        return [("freq_shift:raised", "%s raised %r" % (what, e))]
    xin = data.reshape(N, -1).astype(np.complex128)
    for c, arr in zip(group, arrays):
        a = np.asarray(arr).reshape(N, -1).astype(np.complex128)
        res = judge(tab, c, var, a, xin, cols, what + " -> result for shift %s" % [s / 4 for s in c["S"]],
                    shape_tag(ssh, tuple(c["shsh"])), info)
        out += [(k + ":one-graph", d) for k, d in res]
    if not np.allclose(lazy, eager, rtol=0, atol=1e-5 * float(np.abs(xin).max())):
        out.append(("freq_shift:lazy-chain-differs-from-eager",
                    "freq_shift(freq_shift(z, %s), %s) chained lazily on Dask data differs from the same chain on NumPy data by %.3g (N=%d, sample shape %r)"
                    % ([s / 4 for s in group[0]["S"]], [s / 4 for s in group[1]["S"]], float(np.abs(lazy - eager).max()), N, ssh)))
    return out


def run_dask_groups(chk, tab, cases, rnd, limit):
    by = {}
    for c in cases:
        P = sl.padded(tuple(c["shsh"]), len(c["ssh"]), scalar_to_one=True)
        by.setdefault((c["N"], tuple(c["ssh"]), P), []).append(c)
    keys = [k for k in sorted(by) if len(by[k]) >= 2 and k[0] >= 2]
    if len(keys) > limit:
        keys = rnd.sample(keys, limit)
    n = 0
    for i, k in enumerate(keys):
        group = rnd.sample(by[k], min(len(by[k]), 2 + i % 2))
        var = variants(group[0], i, rnd, 1)[0]
        var["dask"] = True
        for key, desc in dask_group(tab, group, var):
            tables = sub_table(tab, group[0])
            for c in group[1:]:
                tables = sl.merge_tables(tables, sub_table(tab, c))
            chk.violation(key, desc, {"kind": "dgroup", "cases": group, "var": var, "table": tables})
        n += len(group) + 1
    chk.validated += n
    chk.notes["dask_one_graph_results"] = n


def run_sessions(chk, tab, pairs, rnd, limit, nvar):
    """histories of two calls in one process: the same values on two broadcast layouts (per channel
    [[a],[b]], then per polarisation [[a,b]]), like signals; every call is judged on its own layout"""
    pairs = [p for p in pairs if len(set(p[0]["S"])) > 1] or pairs
    if len(pairs) > limit:
        pairs = rnd.sample(pairs, limit)
    n = 0
    for i, (first, second) in enumerate(pairs):
        for var in variants(second, i, rnd, nvar):
            table = sl.merge_tables(sub_table(tab, first), sub_table(tab, second))
            for step, case in enumerate((first, second)):
                res, _ = replay_case(tab, case, var)
                n += 1
                for key, desc in res:
                    chk.violation(key + (":after-other-layout" if step else ""),
                                  desc + (" [second call of a session; first call: shift shape %r]" % (tuple(first["shsh"]),) if step else ""),
                                  {"kind": "session", "cases": [first, second], "var": var, "table": table})
    chk.validated += n
    chk.notes["session_calls"] = n
    if pairs:
        chk.sample({"session": [{k: c[k] for k in ("N", "ssh", "shsh", "S")} for c in pairs[0]]})


def sub_table(tab, case):
    N = case["N"]
    out = {"x": {}, "e": {}}
    for c in range(tab.ncols):
        out["x"][str(c)] = [[v.real, v.imag] for v in tab.col(N, c)]
        for q in set(case["qe"]):
            e = tab.get(N, c, q)
            out["e"]["%d,%d" % (c, q)] = {"zero": e["zero"], "free": e["free"],
                                          "spec": [[v.real, v.imag] for v in e["spec"]],
                                          "y": [[v.real, v.imag] for v in e["y"]]}
    return out


class JsonTable(sl.Table):
    def __init__(self, N, d):
        self.t, self.x = {}, {}
        for c, col in d["x"].items():
            self.x[(N, int(c))] = np.array([complex(a, b) for a, b in col])
        for k, e in d["e"].items():
            c, q = (int(v) for v in k.split(","))
            self.t[(N, c, q)] = {"zero": e["zero"], "free": e["free"],
                                 "spec": np.array([complex(a, b) for a, b in e["spec"]]),
                                 "y": np.array([complex(a, b) for a, b in e["y"]])}
        self.ncols = 1 + max(k[1] for k in self.x)
        self.nreal = 0


def run_replay(chk, tab, cases, rnd, limit, nvar):
    usable = [c for c in cases if all(tab.has(c["N"], q) for q in c["qe"])]
    run_sessions(chk, tab, sl.sessions(usable), rnd, max(60, limit // 12), nvar)
    run_dask_groups(chk, tab, sl.first_calls(usable), rnd, max(50, limit // 20))
    by = {}
    for c in sl.first_calls(usable):
        by.setdefault((tuple(c["ssh"]), tuple(c["shsh"])), []).append(c)
    per = max(1, limit // max(1, len(by)))
    chosen = []
    for k in sorted(by):
        chosen += by[k] if len(by[k]) <= per else rnd.sample(by[k], per)
    shapes, tot = {}, {"boundary_cleared": 0, "boundary_kept": 0}
    shown = 0
    for i, case in enumerate(chosen):
        for var in variants(case, i, rnd, nvar):
            res, info = replay_case(tab, case, var)
            chk.validated += 1
            for k in tot:
                tot[k] += info[k]
            k = "%r<-%r" % (tuple(case["ssh"]), tuple(case["shsh"]))
            shapes[k] = shapes.get(k, 0) + 1
            for key, desc in res:
                chk.violation(key, desc, {"kind": "gen", "case": case, "var": var, "table": sub_table(tab, case)})
        if shown < 3 and case["N"] >= 4 and any(q % 4 for q in case["qe"]):
            shown += 1
            chk.sample({"case": case, "expected_zero_bins_fft_order": [tab.get(case["N"], 0, q)["zero"] for q in case["qe"]]})
    chk.notes["replayed_shape_pairs"] = shapes
    chk.notes["generated_cases"] = len(cases)
    chk.notes["whole_bin_boundary"] = tot


# ------------------------------------------------------------------ code -> Trace (impulse / tone probes)
def probe_params(rnd, thorough):
    Ns = [1009, 1023, 1024, 4096, 64, 17, 9, 10, 2, 1] + ([2048, 4095, 8192, 997, 3, 5, 729] if thorough else [])
    sshs = [(1,), (2,), (3,), (1, 2), (2, 2), (3, 2), (4, 2), (2, 1, 2)]
    out = []
    n = 600 if thorough else 200
    for i in range(n):
        N = Ns[i % len(Ns)]
        ssh = sshs[(i // len(Ns)) % len(sshs)]
        shsh = rnd.choice(sl.shift_shapes(ssh))
        nsh = int(np.prod(shsh)) if shsh else 1
        probe = "tone" if i % 3 == 2 else "impulse"
        style = rnd.choice(["whole", "edge-whole"]) if probe == "tone" else \
            rnd.choice(["uniform", "uniform", "whole", "half", "edge", "mixed", "mixed", "zero"])
        A = []
        for _ in range(nsh):
            if style == "uniform":
                a = rnd.uniform(-20, 20)
            elif style == "whole":
                a = float(rnd.randint(-25, 25))
            elif style == "half":
                a = rnd.randint(-40, 40) / 2
            elif style == "edge":
                a = rnd.choice([N - 1, N, N + 1, -(N - 1), -N, -(N + 1), N - 0.5, -(N + 0.25), 1.5 * N, -3.0 * N, N / 2, -N / 2 + 0.25])
            elif style == "edge-whole":
                a = float(rnd.choice([N - 1, N, N + 1, -(N - 1), -N, -(N + 1), N // 2, -(N // 2), 1, -1, 0]))
            elif style == "mixed":
                # includes shifts that are a tiny fraction of a bin: unlike time_shift, freq_shift has no
                # "close to zero" shortcut -- the band edge the content moves into must still be cleared
                a = rnd.choice([0.0, 0.25, -0.75, rnd.uniform(-N, N), float(rnd.randint(-N, N)), 1e-3, -1e-3,
                                1e-6, -1e-6, N * 1e-9, -N * 3e-10])
            else:
                a = 0.0
            A.append(float(a))
        if rnd.random() < 0.3:
            A = (-np.array(A, dtype=np.float64)).tolist()        # produced by negation: zeros become -0.0
        if style in ("mixed", "zero", "edge-whole") and rnd.random() < 0.5:
            A[rnd.randrange(len(A))] = rnd.choice([-0.0, 0.0, -0.0] if probe == "tone" else
                                                  [-0.0, 0.0, 5e-324, -5e-324, 2.2250738585072014e-308, -0.0])   # signed zeros, subnormals
        nel = int(np.prod(ssh))
        lo, hi = -(N // 2), (N - 1) // 2
        out.append({"N": N, "ssh": list(ssh), "shsh": list(shsh), "A": A, "kind": ["c16", "c8"][i % 2], "probe": probe,
                    "pos": [rnd.randint(lo, hi) if probe == "tone" else rnd.randrange(N) for _ in range(nel)],
                    "dask": rnd.random() < 0.15, "rate": rnd.randrange(len(sl.RATES)), "unit": rnd.randrange(len(FUNITS)),
                    "pick": rnd.randrange(1 << 30), "again": i % 2 == 1,
                    "layout": rnd.choice(sl.LAYOUTS), "chunks": rnd.randrange(5)})
    return out + anchor_probes(thorough)


def anchor_probes(thorough):
    """seed-independent part of the probe set: at the largest length, complex64 and complex128, NumPy and Dask,
    shifts with a large accumulated phase (|df|/fs*N of hundreds to thousands of cycles, non-integer bin offsets,
    either sign), observed at the END of the signal where the mixing phase is largest"""
    out = []
    for N in ([4096, 16384] + ([65536] if thorough else [])):
        for kind in ("c8", "c16"):
            for dask in (False, True):
                for ssh, shsh, A in (((1,), (), [N / 4 + 0.37]), ((2,), (2,), [-(N / 3 + 0.61), N / 2 - 0.25]),
                                     ((2, 2), (2, 1), [N / 5 + 0.5, -(0.45 * N + 0.13)])):
                    nel = int(np.prod(ssh))
                    out.append({"N": N, "ssh": list(ssh), "shsh": list(shsh), "A": [float(a) for a in A], "kind": kind,
                                "probe": "impulse", "pos": [N - 1 - 3 * j for j in range(nel)], "dask": dask, "rate": 1,
                                "unit": 0, "pick": 12345 + N, "again": False, "layout": "C", "chunks": 0})
                # whole-bin move of a tone over a large part of the band: every sample carries the mixing phase
                out.append({"N": N, "ssh": [1], "shsh": [], "A": [float(N // 2 - 7)], "kind": kind, "probe": "tone",
                            "pos": [-(N // 4)], "dask": dask, "rate": 4, "unit": 2, "pick": 777 + N, "again": False,
                            "layout": "C", "chunks": 0})
    return out


def drive_probe(p, eid):
    N, ssh, shsh = p["N"], tuple(p["ssh"]), tuple(p["shsh"])
    nel = int(np.prod(ssh))
    n = np.arange(N)
    cols = []
    for v in p["pos"]:
        if p["probe"] == "tone":
            cols.append(np.exp(2j * np.pi * ((v * n) % N) / N))
        else:
            c = np.zeros(N, dtype=np.complex128)
            c[v] = 1
            cols.append(c)
    data = np.stack(cols, axis=1).reshape((N,) + ssh).astype(KINDS[p["kind"]])
    z = sl.make_signal(data, "BasebandSignal", sl.RATES[p["rate"]], EPOCH, p["dask"], chunks=p.get("chunks"))
    df = shift_quantity(p["A"], shsh, z, FUNITS[p["unit"]])
    if shsh:
        df = sl.relayout(df, p.get("layout", "C"))
    # the requested shift in bins, exactly: df [Hz] / sample_rate [Hz] * N on the doubles the code sees
    dfv = np.asarray(df.to(u.Hz).value, dtype=np.float64).ravel()
    rate = exact.frac(float(z.sample_rate.to_value(u.Hz)))
    Abins = [exact.frac(float(v)) / rate * N for v in dfv]
    m0 = sl.meta_of(z)
    y = pb.freq_shift(z, df)
    if p.get("again"):
        y = pb.freq_shift(z, df)        # the same objects passed again: the observed call is the second one
    meta_changed = sl.meta_diff(m0, sl.meta_of(y))
    a = materialise(y).reshape(N, nel).astype(np.complex128)
    Y = np.fft.fftshift(np.fft.fft(a, axis=0), axes=0)
    rnd = random.Random(p["pick"])
    ztol = zero_tol(p["kind"], N)
    el = []
    for j in range(nel):
        col = Y[:, j]
        if p["probe"] == "impulse":
            small = np.abs(col) <= ztol
            lead, trail, inner = sl.lead_trail(small)
            kept = np.flatnonzero(~small)
            probes = []
            if len(kept):
                for jj in sorted({int(kept[0]), int(kept[-1]), int(rnd.choice(list(kept))), int(rnd.choice(list(kept)))}):
                    probes.append({"k": jj - N // 2, "y": exact.cfix(col[jj])})
            el.append({"n0": p["pos"][j], "lead": lead, "trail": trail, "inner": inner, "probes": probes})
        else:
            mag = np.abs(col) / N
            jj = int(mag.argmax())
            has = bool(mag[jj] > 1e-5)
            rest = float(np.delete(mag, jj).max()) if N > 1 else 0.0
            if not has:
                rest = float(mag.max())
            el.append({"b": p["pos"][j], "haspeak": has, "peak": jj - N // 2, "val": exact.cfix(col[jj] / N),
                       "rest": exact.fix(rest)})
    ev = {"id": eid, "ev": "fshift", "kind": p["probe"], "N": N, "ssh": list(ssh), "shsh": list(shsh),
          "A": [exact.rat(v) for v in Abins], "el": el}
    return ev, meta_changed


def run_trace(chk, rnd, thorough):
    params = probe_params(rnd, thorough)
    events = []
    for i, p in enumerate(params):
        ev, meta_changed = drive_probe(p, i)
        if meta_changed:
            chk.violation("freq_shift:metadata", "probe %r changed %s" % (p, meta_changed), {"kind": "probe", "p": p})
        events.append(ev)
    rejected, n = sl.validate("Trace_Shift", events, chk=chk, name="fshift", batch=max(30, len(events) // 4 + 1), par=4)
    chk.validated += n
    for ev, failed in rejected:
        p = params[ev["id"]]
        tag = shape_tag(tuple(p["ssh"]), tuple(p["shsh"]))
        if set(failed) <= {"zero-bins", "left-band-not-zero"}:
            key = "freq_shift:zero-bins:" + tag
        else:
            key = "freq_shift:probe:" + "+".join(sorted(failed))
        obs = [(e.get("lead"), e.get("trail"), e.get("inner")) if p["probe"] == "impulse" else (e["haspeak"], e["peak"]) for e in ev["el"]]
        chk.violation(key, "%s probe N=%d sample shape %r shift %r bins (shape %r) %s: TLC rejects %s; observed %s"
                      % (p["probe"], p["N"], tuple(p["ssh"]), p["A"], tuple(p["shsh"]), p["kind"], sorted(failed), obs),
                      {"kind": "probe", "p": p})
    chk.notes["trace_events"] = n
    chk.notes["trace_elements"] = sum(len(e["el"]) for e in events)
    chk.notes["trace_lengths"] = sorted({p["N"] for p in params})
    for ev in events[:2]:
        chk.sample({"probe": params[ev["id"]]})


def run(chk):
    thorough = chk.tier == "thorough"
    rnd = random.Random(chk.seed)
    t = "full" if thorough else "quick"
    res = sl.parallel({
        "mc": lambda: tlc.run("MC_FreqShift", "MC_FreqShift_%s.cfg" % t, workers=8, timeout=3000, heap="3g"),
        "neg": lambda: tlc.run("MC_FreqShift", "Neg_FreqShift_pinned.cfg", workers=1, timeout=900, heap="1g"),
        "cases": lambda: sl.gen("Gen_FreqShift", "Gen_FreqShift_%s.cfg" % t, workers=2),
        "table": lambda: sl.gen("Gen_Delay", "Gen_Delay_freq_%s.cfg" % t, workers=5, timeout=3000),
        # the large-N probes are driven and validated side by side with the generation jobs
        "trace": lambda: run_trace(chk, random.Random(chk.seed + 104729), thorough),
    })
    chk.mc_must_hold("MC_FreqShift_" + t, res["mc"])
    chk.exhaustive = res["mc"].ok
    chk.add_tlc("Neg_FreqShift_pinned (must be rejected)", res["neg"])
    if res["neg"].ok or res["neg"].violation not in ("ZeroBinsExact", "BoundaryOnly", "WholeBinIsCircularMove", "BeyondBandIsZero"):
        chk.machinery_errors.append("the model of the un-repaired zero loop was not rejected by TLC: %s"
                                    % res["neg"].stdout[-1500:])
    chk.notes["negative_config"] = "Neg_FreqShift_pinned.cfg rejected: %s" % res["neg"].violation
    for k in ("cases", "table"):
        chk.add_tlc("gen:" + k, res[k][0])
        if not res[k][0].ok:
            chk.machinery_errors.append("generation %s failed: %s" % (k, res[k][0].stdout[-2000:]))
    tab = sl.Table(res["table"][1])
    run_replay(chk, tab, res["cases"][1], rnd, 40000 if thorough else 3000, 2 if thorough else 1)
    chk.assumptions += [
        "TLC explores FreqShift exhaustively only within the constants of the MC configuration",
        "expected spectra / samples are TLC's (kernel DFT on 60-bit fixed point, N <= 8), compared at 1e-5*sum|x| / 1e-5*max|x|",
        "cleared bins are judged on the DFT of the output at 1e-6*sum|x| (complex64: the float32 budget of the inverse FFT, 4 eps log2 N, if larger)",
        "the single boundary bin of a whole-bin shift is unconstrained (float product ft*N)",
        "large N: impulse and whole-bin tone probes only, decided by TLC",
    ]


def replay(doc):
    c = doc["case"]
    if c["kind"] == "dgroup":
        tab = JsonTable(c["cases"][0]["N"], c["table"])
        bad = dask_group(tab, c["cases"], c["var"])
    elif c["kind"] == "session":
        tab = JsonTable(c["cases"][0]["N"], c["table"])
        bad = []
        for step, case in enumerate(c["cases"]):
            res, _ = replay_case(tab, case, c["var"])
            bad += [(k + (":after-other-layout" if step else ""), d) for k, d in res]
    elif c["kind"] == "gen":
        tab = JsonTable(c["case"]["N"], c["table"])
        bad, _ = replay_case(tab, c["case"], c["var"])
    else:
        ev, meta_changed = drive_probe(c["p"], 0)
        rejected, _ = sl.validate("Trace_Shift", [ev], batch=10, par=1)
        bad = [("probe", "TLC rejects %s" % f) for _, f in rejected]
    for key, desc in bad:
        print("VIOLATION property=%s replay=(this case)  # %s: %s" % (PID, key, desc))
    if not bad:
        print("case passes")
    return 1 if bad else 0
