"""C09 helpers: sentinel Dask inputs that count their executions, a global
task-execution counter, and a forced-schedule Dask scheduler.

Forced schedules.  `forced_get(choices)` returns a `get(dsk, keys, **kw)`
callable usable as `x.compute(scheduler=get)`.  It is built on
`dask.local.get_async` with a custom `submit`: the number of workers is
unbounded, so get_async hands *every* ready task to `submit` as soon as its
dependencies are in the cache; `submit` runs nothing, it only parks the task
and returns a future-like object that reports itself finished.  get_async then
asks one parked future for its `.result()`; at that moment the controller picks
the k-th parked (= ready) task in key order, k being the next choice index of
the schedule (taken modulo the size of the ready set, the sequence is cycled),
executes it in the calling thread and returns *its* result record.  get_async
identifies finished tasks by the key inside the record, so the order in which
tasks run is exactly the order dictated by the schedule, whatever graph Dask
built after fusing / renaming tasks.  Single-threaded and deterministic."""
import threading

import numpy as np
import dask
import dask.array as da
from dask.callbacks import Callback
from dask.local import get_async

# ---------------------------------------------------------------- counters
_LOCK = threading.Lock()
SENTINEL = {"n": 0, "keys": []}     # executions of sentinel input blocks (this process)
TASKS = {"n": 0}                    # every task executed by a local scheduler (this process)


def sentinel_count():
    return SENTINEL["n"]


def _src_block(src, block_info=None):
    """One input block: counts its execution, then returns its part of `src`."""
    loc = block_info[None]["array-location"]
    with _LOCK:
        SENTINEL["n"] += 1
    return np.array(src[tuple(slice(a, b) for a, b in loc)])   # a fresh, writable copy


def _count_block(x):
    with _LOCK:
        SENTINEL["n"] += 1
    return x


def sentinel_array(a, chunks):
    """Dask array equal to ndarray `a` with the given chunks; every block is
    produced by a task that increments SENTINEL['n'] when (and only when) it
    is executed."""
    a = np.asarray(a)
    chunks = da.core.normalize_chunks(chunks, a.shape, dtype=a.dtype)
    return da.map_blocks(_src_block, a, chunks=chunks, dtype=a.dtype, meta=np.empty((0,) * a.ndim, a.dtype))


class _TaskCounter(Callback):
    def _pretask(self, key, dsk, state):
        with _LOCK:
            TASKS["n"] += 1


_COUNTER = None


def install_task_counter():
    """Count every task run by dask's local schedulers in this process."""
    global _COUNTER
    if _COUNTER is None:
        _COUNTER = _TaskCounter()
        _COUNTER.register()


def task_count():
    return TASKS["n"]


# ---------------------------------------------------------------- forced schedules
class _Parked:
    """Future-like object handed to get_async; see module docstring."""

    def __init__(self, ctl):
        self.ctl = ctl

    def add_done_callback(self, cb):
        cb(self)            # "finished": get_async will call .result() when it wants one result

    def result(self):
        return self.ctl.run_next()


def _keystr(k):
    return repr(k)


class Controller:
    def __init__(self, choices):
        self.choices = list(choices) or [0]
        self.pos = 0
        self.parked = []          # (key, fn, args)
        self.ready_sizes = []
        self.order = []

    def submit(self, fn, args_list):
        # chunksize is 1: exactly one task per submission
        assert len(args_list) == 1
        self.parked.append((args_list[0][0], fn, args_list))
        return _Parked(self)

    def run_next(self):
        self.parked.sort(key=lambda t: _keystr(t[0]))
        k = self.choices[self.pos % len(self.choices)] % len(self.parked)
        self.pos += 1
        self.ready_sizes.append(len(self.parked))
        key, fn, args_list = self.parked.pop(k)
        self.order.append(key)
        return fn(args_list)


def forced_get(choices, log=None):
    """Scheduler callable executing ready tasks in the order dictated by the
    sequence of choice indices.  `log` (a dict) receives the ready-set sizes
    and the number of executed tasks."""
    def get(dsk, keys, **kwargs):
        ctl = Controller(choices)
        kwargs.pop("num_workers", None)
        kwargs.pop("chunksize", None)
        try:
            return get_async(ctl.submit, 1 << 30, dsk, keys, chunksize=1, **kwargs)
        finally:
            if log is not None:
                log["ready_sizes"] = ctl.ready_sizes
                log["ntasks"] = len(ctl.order)
                log["order"] = [_keystr(k) for k in ctl.order]
    return get
