"""C13 - polarisation conversions are unitary, invertible and Stokes-consistent.

spec/Pol.tla        exact model on Gaussian integers (value = (a, b)/sqrt2^k, Stokes = s/2^k); TLC checks
                    PowerKept, RoundTrip, IdentityInOwnBasis, ConversionIsDefinition, StokesFormulas,
                    BasisIndependent, Polarised (I^2 = Q^2+U^2+V^2, I >= 0), IntensitySum, ItemIsComponent
                    for every pair of Gaussian integers of the lattice and both starting bases, and prints
                    every behaviour (Gen_Pol) -> replayed on real DualPolarizationSignal objects
spec/Trace_Pol.tla  validates recorded conversions / Stokes vectors of arbitrary float samples in Rat
"""
import json
import multiprocessing as mp
import os
import random

import numpy as np

import exact
import framework
import pfhelp
import tlc

PID = "C13"
SCR = os.path.join(framework.ROOT, ".scratch")
NEGS = ["Neg_Pol_swapLR.cfg", "Neg_Pol_conj.cfg", "Neg_Pol_signV.cfg"]
CONV = {"to_linear": "linear", "to_circular": "circular"}
LD = np.longdouble
SQRT2 = np.sqrt(LD(2))
# One process is one "session".  SESSION[0] is the complex width whose conversions run first in this process: the main
# process converts complex128 data first, a forked child (forked before any conversion has happened) complex64 data
# first; results must not depend on what the process converted before.
SESSION = ["complex128"]
_GROUPS = {}


def _load(path):
    out = []
    with open(path) as f:
        for line in f:
            line = line.strip()
            if line:
                c = json.loads(line)
                out.append(json.loads(c) if isinstance(c, str) else c)
    return out


def _kw(i=0):
    from common import u, Time
    return [dict(sample_rate=1 * u.MHz, center_freq=1.4 * u.GHz, freq_align="bottom",
                 start_time=Time("2020-02-02T02:02:02.123456789", format="isot", precision=9), meta={"verif": "c13"}),
            dict(sample_rate=800 / 3 * u.kHz, center_freq=327 * u.MHz, freq_align="center", start_time=None),
            dict(sample_rate=2 * u.GHz, center_freq=7 * u.GHz, freq_align="top",
                 start_time=Time(58849.5, format="mjd"))][i % 3]


COVER = {}
MEMS = ("C", "F", "T", "S")          # memory layout of the data: C order, Fortran order, transposed view, strided view
ALIGNS = ("bottom", "center", "top")


def concretise(kwi):
    """kwi -> (metadata set, memory layout, freq_align, set attributes by assignment after construction?)"""
    return kwi % 3, MEMS[kwi % 4], ALIGNS[(kwi // 4 + kwi) % 3], (kwi // 2) % 2 == 1


def relayout(data, mem):
    """the same values in another memory layout"""
    if mem == "F":
        return np.asfortranarray(data)
    if mem == "T":                       # what a reader's z.transpose(...) leaves behind
        perm = (0, 2, 1) + tuple(range(3, data.ndim))[::-1]
        inv = tuple(int(i) for i in np.argsort(perm))
        return np.ascontiguousarray(data.transpose(perm)).transpose(inv)
    if mem == "S":
        big = np.full((2 * data.shape[0] + 1,) + data.shape[1:-1] + (2 * data.shape[-1],), 7 - 5j, dtype=data.dtype)
        big[1::2, ..., ::2] = data
        return big[1::2, ..., ::2]
    return np.ascontiguousarray(data)


def build(a, b, shape, basis, dtype, dask, kwi=0, chunk_axis=0):
    """a, b: complex arrays of P lattice values -> DualPolarizationSignal of shape (T, nchan, 2, *extra)"""
    from common import pb, da
    A = np.resize(np.asarray(a), shape)           # (a layout the lattice does not fill exactly repeats it cyclically)
    B = np.resize(np.asarray(b), shape)
    kwset, mem, align, assign = concretise(kwi)
    data = relayout(np.stack([A, B], axis=2).astype(dtype), mem)
    if dask:
        # chunk_axis: any axis of the data (time, channel, polarisation, trailing), or data.ndim = every axis at once
        ch = [s for s in data.shape]
        for ax in (range(data.ndim) if chunk_axis % (data.ndim + 1) == data.ndim else [chunk_axis % (data.ndim + 1)]):
            ch[ax] = max(1, data.shape[ax] // 3)
        data = da.from_array(data, chunks=tuple(ch))
    kw = dict(_kw(kwset), freq_align=align)
    if assign:
        # the same state reached by assignment: built with the other values first
        other = "circular" if basis == "linear" else "linear"
        z = pb.DualPolarizationSignal(data, pol_type=other, **dict(kw, freq_align="center"))
        z.pol_type = basis
        z.freq_align = align
        return z
    return pb.DualPolarizationSignal(data, pol_type=basis, **kw)


def apply(sig, hist):
    for op in hist:
        if op in CONV:
            sig = getattr(sig, op)()
        elif op == "to_stokes":
            sig = sig.to_stokes()
        elif op == "to_intensity":
            sig = sig.to_intensity()
        elif op in ("I", "Q", "U", "V"):
            sig = sig[op] if (len(hist) % 2) else getattr(sig, "stokes" + op)
        else:
            sig = sig[op]               # not a component name: must be refused
    return sig


def effective_conversions(basis, hist):
    n = 0
    for op in hist:
        if op in CONV:
            if CONV[op] != basis:
                n += 1
                basis = CONV[op]
    return n, basis


def meta_diffs(z, y, kind, basis_exp):
    """metadata clauses: class, pol_type, time and frequency labels"""
    import common
    from common import pb
    bad = []
    cls = {"pol": pb.DualPolarizationSignal, "stokes": pb.FullStokesSignal, "inten": pb.IntensitySignal,
           "item": pb.IntensitySignal}[kind]
    if type(y) is not cls:
        bad.append("class %s, expected %s" % (type(y).__name__, cls.__name__))
        return bad
    if kind == "pol" and y.pol_type != basis_exp:
        bad.append("pol_type %r, expected %r" % (y.pol_type, basis_exp))
    shp = {"pol": z.shape, "inten": z.shape, "stokes": z.shape[:2] + (4,) + z.shape[3:],
           "item": z.shape[:2] + z.shape[3:]}[kind]
    if tuple(y.shape) != tuple(shp):
        bad.append("shape %r, expected %r" % (tuple(y.shape), tuple(shp)))
    if common.hz(y.sample_rate) != common.hz(z.sample_rate):
        bad.append("sample_rate %r != %r" % (y.sample_rate, z.sample_rate))
    if (y.start_time is None) != (z.start_time is None) or \
            (z.start_time is not None and common.time_days(y.start_time) != common.time_days(z.start_time)):
        bad.append("start_time %r != %r" % (y.start_time, z.start_time))
    if common.hz(y.channel_freqs) != common.hz(z.channel_freqs) or common.hz(y.center_freq) != common.hz(z.center_freq) \
            or common.hz(y.chan_bw) != common.hz(z.chan_bw):
        bad.append("frequency labels changed")
    return bad


def expected_arrays(recs, kind):
    """TLC's expectation for the P lattice points -> (longdouble array [P, ncomp] (complex for pol), power-like scale)"""
    if kind == "pol":
        num = np.array([[complex(r["cur"]["a"]["re"], r["cur"]["a"]["im"]), complex(r["cur"]["b"]["re"], r["cur"]["b"]["im"])]
                        for r in recs])
        k = np.array([r["cur"]["k"] for r in recs])
        den = (LD(2) ** (k // 2)) * np.where(k % 2 == 1, SQRT2, LD(1))
        return num.astype(np.clongdouble) / den[:, None]
    num = np.array([r["cur"]["s"] for r in recs], dtype=LD)
    k = np.array([r["cur"]["k"] for r in recs])
    return num / (LD(2) ** k)[:, None]


def to_points(d, kind, shape):
    """result data -> [P, ncomp] in lattice order"""
    d = np.asarray(d)
    if kind == "item":
        return d.reshape(-1, 1)
    return np.moveaxis(d, 2, -1).reshape(-1, d.shape[2])


def replay_group(chk, basis, hist, recs, shape, dtype, dask, kwi, chunk_axis=0, z=None, batch=None):
    """one (starting basis, history): all lattice points at once.  -> number of samples judged.
    With batch = {...} (description of the batch this run belongs to) the real calls are made now but the result is
    judged later: -> (result signal, finish(data=None) -> number judged)."""
    import common
    size = int(np.prod(shape))
    if size != len(recs):               # layouts that the lattice does not fill exactly (even channel counts): repeat it
        recs = [recs[i % len(recs)] for i in range(size)]
    kind = recs[0]["cur"]["kind"]
    o = np.array([r["o"] for r in recs], dtype=float)
    a, b = o[:, 0] + 1j * o[:, 1], o[:, 2] + 1j * o[:, 3]
    if z is None:
        z = build(a, b, shape, basis, dtype, dask, kwi, chunk_axis)
    ck = "%s/%s/%s-nchan/%s" % (kind, z.freq_align, "even" if z.nchan % 2 == 0 else "odd", concretise(kwi)[1])
    COVER[ck] = COVER.get(ck, 0) + 1
    where = "%s %s -> %s shape=%r %s %s [session converts %s data first]%s" % (
        basis, "[X,Y]" if basis == "linear" else "[L,R]", ".".join(hist) or "(nothing)", tuple(z.shape), dtype,
        (("dask chunks %r" % (z.data.chunks,)) if dask else "numpy") + " memory=%s freq_align=%s%s nchan=%d" % (
            concretise(kwi)[1], z.freq_align, "(assigned)" if concretise(kwi)[3] else "", z.nchan), SESSION[0],
        (" [%s]" % batch["what"]) if batch else "")

    def case(i):
        if batch:
            return dict(batch["case"], kind="batch", first_dtype=SESSION[0])
        return {"kind": "gen", "o": recs[i]["o"], "basis": basis, "hist": hist, "cur": recs[i]["cur"], "dtype": dtype,
                "dask": dask, "kwi": kwi, "first_dtype": SESSION[0], "chunk_axis": chunk_axis, "shape": list(shape)}
    try:
        y = apply(z, hist)
    except Exception as e:  # noqa
        chk.violation("gen:raised", "%r | %s" % (e, where), case(0))
        return (None, lambda d=None: 0) if batch else 0

    def finish(d=None):
        try:
            d = common.materialise(y) if d is None else np.asarray(d)
        except Exception as e:  # noqa
            chk.violation("gen:raised", "%r | %s" % (e, where), case(0))
            return 0
        return _judge(d)

    def _judge(d):
        return _judge_group(chk, z, y, d, kind, basis, hist, recs, shape, dtype, a, b, where, case)
    return (y, finish) if batch else finish()


def _judge_group(chk, z, y, d, kind, basis, hist, recs, shape, dtype, a, b, where, case):
    neff, basis_exp = effective_conversions(basis, hist)
    for m in meta_diffs(z, y, kind, basis_exp):
        chk.violation("gen:meta:" + m.split()[0], m + " | " + where, case(0))
        if m.startswith(("class", "shape")):
            return 0
    if tuple(d.shape) != tuple(y.shape):
        chk.violation("gen:computed-shape", "the result announces shape %r, its data computes to shape %r | %s"
                      % (tuple(y.shape), tuple(d.shape), where), case(0))
        return 0
    got = to_points(d, kind, shape)
    exp = expected_arrays(recs, kind)
    eps = LD(np.finfo(np.dtype(dtype).type(0).real.dtype).eps)
    power = (np.abs(a) ** 2 + np.abs(b) ** 2).astype(LD)
    if kind == "pol":
        err = np.maximum(np.abs(got.real.astype(LD) - exp.real), np.abs(got.imag.astype(LD) - exp.imag)).max(axis=1)
        tol = 4 * neff * eps * np.sqrt(power)
        key = "gen:" + ("identity" if neff == 0 else "roundtrip" if basis_exp == basis else "conversion")
    else:
        err = np.abs(got.astype(LD) - exp).max(axis=1)
        tol = (4 * neff + 4) * eps * power          # 4 ulp of I for the quadratic forms, 4 more per conversion
        key = "gen:" + {"stokes": "stokes", "inten": "intensity", "item": "item"}[kind] + ("" if neff == 0 else "-other-basis")
    badi = np.nonzero(err > tol)[0]
    if len(badi):
        i = int(badi[np.argmax((err - tol)[badi])])
        chk.violation(key, "sample (a, b) = (%s, %s): got %s, specification says %s (%d of %d samples differ, tolerance %.3g) | %s"
                      % (a[i], b[i], got[i].tolist(), [complex(x) if kind == "pol" else float(x) for x in exp[i]],
                         len(badi), len(recs), float(tol[i]), where), case(i))
    return len(recs)


def gen_cases(chk):
    """model checking + generation; -> {(basis, history): records of all lattice points}"""
    thorough = chk.tier == "thorough"
    os.makedirs(SCR, exist_ok=True)
    out = os.path.join(SCR, "%s_gen_%d.ndjson" % (PID, os.getpid()))
    if os.path.exists(out):
        os.remove(out)
    r = tlc.run("Gen_Pol", "Gen_Pol_full.cfg" if thorough else "Gen_Pol_quick.cfg", env={"GEN_OUT": out}, timeout=1500, heap="4g")
    chk.mc_must_hold("mc+gen:Pol_" + ("full" if thorough else "quick"), r)
    chk.exhaustive = bool(r.ok)
    if not r.ok:
        return None
    recs = _load(out)
    os.remove(out)
    groups = {}
    for c in recs:
        groups.setdefault((c["basis"], tuple(c["hist"])), []).append(c)
    for g in groups.values():
        g.sort(key=lambda c: c["o"])
    REFUSED.clear()
    for k in [k for k, g in groups.items() if g[0]["cur"]["kind"] == "refused"]:
        REFUSED[k] = groups.pop(k)[0]
    return groups


REFUSED = {}


def replay_refusals(chk, groups):
    """component access by a key that is not a component name must raise KeyError (generated by BadItem)"""
    import common
    n = 0
    P, layouts = lattice_layouts(groups)
    for i, ((basis, hist), rec) in enumerate(sorted(REFUSED.items())):
        parent = groups[(basis, hist[:-1])]
        shape = layouts[i % len(layouts)]
        size = int(np.prod(shape))
        o = np.array([parent[j % P]["o"] for j in range(size)], dtype=float)
        dtype, dask = ("complex128", "complex64")[i % 2], i % 3 == 1
        z = build(o[:, 0] + 1j * o[:, 1], o[:, 2] + 1j * o[:, 3], shape, basis, dtype, dask, i, i)
        key = hist[-1]
        case = {"kind": "refusal", "basis": basis, "hist": list(hist), "dtype": dtype, "dask": dask, "i": i}
        try:
            y = apply(z, list(hist[:-1]))
        except Exception as e:  # noqa
            chk.violation("gen:raised", "%r | %s %r" % (e, basis, hist), case)
            continue
        n += 1
        try:
            got = y[key]
        except KeyError:
            continue
        except Exception as e:  # noqa
            chk.violation("gen:key-wrong-exception", "%s[%r] raised %r, expected KeyError" % (type(y).__name__, key, e), case)
            continue
        which = [k for k in "IQUV" if np.array_equal(common.materialise(got), common.materialise(y[k]))]
        chk.violation("gen:key-not-refused", "%s[%r] is not refused: it returns %r%s (only 'I', 'Q', 'U', 'V' name components)"
                      % (type(y).__name__, key, got, (", the data of component %s" % which) if which else ""), case)
    chk.validated += n
    chk.notes["keys_refused"] = n
    chk.notes["runs_by_kind_align_parity_memory"] = dict(sorted(COVER.items()))


def lattice_layouts(groups):
    P = len(next(iter(groups.values())))
    base = round(P ** 0.25)
    assert base ** 4 == P and all(len(g) == P for g in groups.values()), "lattice incomplete"
    up = lambda k: -(-P // k)           # noqa
    return P, [(P, 1), (up(2), 2), (base ** 3, base), (base ** 2, base, base), (up(8), 4, 2), (base, base, base, base),
               (base ** 2, base ** 2), (up(6), 6), (1, base, base ** 3), (up(12), 2, 3, 2)]


def replay_gen(chk, groups, rnd):
    """main session: for every history the complex128 runs come before the complex64 ones; Dask data is chunked along
    every axis in turn (time, channel, polarisation, trailing axes, all at once)"""
    thorough = chk.tier == "thorough"
    P, layouts = lattice_layouts(groups)
    n, ng = 0, 0
    kinds = {}
    chunked = {}
    for gi, ((basis, hist), g) in enumerate(sorted(groups.items())):
        kinds[g[0]["cur"]["kind"]] = kinds.get(g[0]["cur"]["kind"], 0) + 1
        combos = [(dt, dk) for dt in ("complex128", "complex64") for dk in (False, True)]
        for ci, (dt, dk) in enumerate(combos):
            lays = layouts if thorough and ci < 2 else [layouts[(gi + ci) % len(layouts)]]
            for li, shape in enumerate(lays):
                ca = (gi // 2 + ci // 2 + li) % (len(shape) + 2)
                n += replay_group(chk, basis, list(hist), g, shape, dt, dk, gi + ci + li, chunk_axis=ca)
                ng += 1
                if dk:
                    nm = "all" if ca == len(shape) + 1 else ["time", "channel", "pol"][ca] if ca < 3 else "trailing"
                    chunked[nm] = chunked.get(nm, 0) + 1
        if gi in (3, 40, 77):
            c = g[len(g) // 3]
            chk.sample({"start": c["o"], "basis": basis, "hist": list(hist), "expected": c["cur"]})
    chk.validated += n
    chk.notes["lattice_points"] = P
    chk.notes["histories"] = len(groups)
    chk.notes["signal_runs"] = ng
    chk.notes["histories_by_result_kind"] = kinds
    chk.notes["layouts"] = [list(s) for s in layouts]
    chk.notes["dask_runs_by_chunked_axis"] = chunked


def _settle(pending, dask):
    """judge a batch: every call of the batch has been made, every result object is still alive; Dask results are
    computed together in ONE dask.compute call (one merged graph).  -> samples judged"""
    import dask as dk
    live = [(y, fin) for y, fin in pending if y is not None]
    if dask and live:
        try:
            datas = dk.compute(*[y.data for y, _ in live], scheduler="synchronous")
        except Exception:  # noqa   (let every member report its own failure)
            datas = [None] * len(live)
        return sum(fin(d) for (y, fin), d in zip(live, datas))
    return sum(fin() for y, fin in live)


def batch_inputs(groups, basis, hist, K, stride):
    """K signals of equal geometry but different content: the lattice in K different orders"""
    g = groups[(basis, tuple(hist))]
    P = len(g)
    return [[g[(i + k * stride) % P] for i in range(P)] for k in range(K)]


def run_batch(chk, groups, spec):
    """spec: {"type": "inputs" | "histories", basis, hists, shape, dtype, dask, chunk_axis, kwi, K}
    inputs:    the same history on K different, equally shaped signals, one after the other
    histories: several histories of equal result kind on the same signal
    In both cases nothing is judged before the last call has returned."""
    shape, dtype, dask, ca, kwi = tuple(spec["shape"]), spec["dtype"], spec["dask"], spec["chunk_axis"], spec["kwi"]
    basis = spec["basis"]
    pending = []
    if spec["type"] == "inputs":
        hist = spec["hists"][0]
        b = {"what": "batch: %d equally shaped signals, judged after the last call%s"
             % (spec["K"], ", one dask.compute" if dask else ""), "case": spec}
        for recs in batch_inputs(groups, basis, hist, spec["K"], 37):
            pending.append(replay_group(chk, basis, list(hist), recs, shape, dtype, dask, kwi, ca, batch=b))
    else:
        b = {"what": "batch: %d histories on one signal, judged after the last call%s"
             % (len(spec["hists"]), ", one dask.compute" if dask else ""), "case": spec}
        g0 = groups[(basis, tuple(spec["hists"][0]))]
        o = np.array([r["o"] for r in g0], dtype=float)
        z = build(o[:, 0] + 1j * o[:, 1], o[:, 2] + 1j * o[:, 3], shape, basis, dtype, dask, kwi, ca)
        for hist in spec["hists"]:
            pending.append(replay_group(chk, basis, list(hist), groups[(basis, tuple(hist))], shape, dtype, dask, kwi, ca, z=z, batch=b))
    return _settle(pending, dask)


def batch_specs(groups, tier):
    P, layouts = lattice_layouts(groups)
    K = 4 if tier == "thorough" else 3
    specs = []
    keys = sorted(groups)
    for gi, (basis, hist) in enumerate(keys):
        for bi, dask in enumerate((False, True)):
            shape = layouts[(gi + bi + 1) % len(layouts)]
            specs.append({"type": "inputs", "basis": basis, "hists": [list(hist)], "shape": list(shape), "K": K,
                          "dtype": ("complex128", "complex64")[(gi + bi) % 2], "dask": dask,
                          "chunk_axis": (gi + bi) % (len(shape) + 2), "kwi": gi})
    for basis in ("linear", "circular"):
        by_kind = {}
        for (b, hist) in keys:
            if b == basis:
                by_kind.setdefault(groups[(b, hist)][0]["cur"]["kind"], []).append(list(hist))
        for ki, (kind, hists) in enumerate(sorted(by_kind.items())):
            for bi, dask in enumerate((False, True)):
                for li in range(len(layouts) if tier == "thorough" else 2):
                    shape = layouts[(ki + bi + 3 * li) % len(layouts)]
                    specs.append({"type": "histories", "basis": basis, "hists": hists[:14], "shape": list(shape), "K": len(hists[:14]),
                                  "dtype": ("complex128", "complex64")[(ki + li) % 2], "dask": dask,
                                  "chunk_axis": (2 + ki + 3 * li) % (len(shape) + 2), "kwi": ki + li})
    return specs


def run_batches(chk, groups):
    """results must not depend on what else is converted, kept alive or computed at the same time"""
    n, cnt = 0, {"inputs": 0, "histories": 0}
    for spec in batch_specs(groups, chk.tier):
        spec["tier"] = chk.tier
        n += run_batch(chk, groups, spec)
        cnt[spec["type"]] += 1
    chk.validated += n
    chk.notes["batches"] = cnt
    chk.notes["batch_samples_judged"] = n


def child_session(arg):
    """Runs in a process forked before any conversion happened: every complex64 conversion (lattice replay of all
    histories + recorded float samples) comes before any complex128 one.  -> (violations, trace events, samples judged)"""
    seed, tier, nsamp = arg
    SESSION[0] = "complex64"
    chk = framework.Check(PID, tier, seed)
    chk._known = []
    rnd = random.Random(seed + 1313)
    P, layouts = lattice_layouts(_GROUPS)
    n, events = 0, []
    for dtype in ("complex64", "complex128"):
        for gi, ((basis, hist), g) in enumerate(sorted(_GROUPS.items())):
            shape = layouts[(gi + 3) % len(layouts)]
            dask = gi % 3 == 0
            n += replay_group(chk, basis, list(hist), g, shape, dtype, dask, gi, chunk_axis=(gi // 3) % (len(shape) + 2))
        for basis in ("linear", "circular"):
            for dask in (False, True):
                events += safe_events(chk, random_samples(rnd, nsamp, dtype), basis, dtype, dask, 10 ** 6 + len(events), len(events) // 7)
    return chk.violations, events, n


# ---------------------------------------------------------------- trace
def rats(v):
    return [pfhelp.dy(x) for x in v]


def flat4(d, j):
    """sample j of a (n, 1, 2) complex array -> [re a, im a, re b, im b] (numpy scalars)"""
    return [d[j, 0, 0].real, d[j, 0, 0].imag, d[j, 0, 1].real, d[j, 0, 1].imag]


def record_events(x, basis, dtype, dask, first_id=0, chunk_axis=0):
    """drive the real code on samples x (n,1,2) and record events"""
    import common
    z = build(x[:, 0, 0], x[:, 0, 1], (len(x), 1), basis, dtype, dask, chunk_axis, chunk_axis)

    def mat(sig):
        d = common.materialise(sig)
        if tuple(d.shape) != tuple(sig.shape):
            raise ValueError("%s announces shape %r, its data computes to shape %r (input %s %s, chunks %r)"
                             % (type(sig).__name__, tuple(sig.shape), tuple(d.shape), dtype, basis, getattr(z.data, "chunks", None)))
        return d
    other = "circular" if basis == "linear" else "linear"
    conv = "to_" + other
    back = "to_" + basis
    eb = 52 if dtype == "complex128" else 23
    d0 = mat(z)
    zc = getattr(z, conv)()
    dc = mat(zc)
    db = mat(getattr(zc, back)())
    di = mat(getattr(z, back)())
    ev = []

    def stokes_of(sig):
        s = sig.to_stokes()
        return mat(s), mat(sig.to_intensity()), [mat(s[k]) if i % 2 else mat(getattr(s, "stokes" + k)) for i, k in enumerate("IQUV")]
    st0, in0, it0 = stokes_of(z)
    st1, in1, it1 = stokes_of(zc)
    for j in range(len(x)):
        xin = rats(flat4(d0, j))
        meta = {"basis": basis, "dtype": dtype, "dask": dask, "x": [float(v).hex() for v in flat4(d0, j)],
                "first_dtype": SESSION[0], "chunk_axis": chunk_axis}
        ev.append({"ev": "conv", "dir": conv, "eb": eb, "x": xin, "y": rats(flat4(dc, j)), "src": meta})
        ev.append({"ev": "roundtrip", "eb": eb, "x": xin, "y": rats(flat4(db, j)), "src": meta})
        ev.append({"ev": "identity", "x": xin, "y": rats(flat4(di, j)), "src": meta})
        for st, inten, items, ulps in ((st0, in0, it0, 4), (st1, in1, it1, 8)):
            ev.append({"ev": "stokes", "basis": basis, "eb": eb, "ulps": ulps, "x": xin, "y": rats(st[j, 0, :]),
                       "inten": rats(inten[j, 0, :]), "items": rats([it[j, 0] for it in items]), "src": meta})
    for i, e in enumerate(ev):
        e["id"] = first_id + i
    return ev


def random_samples(rnd, n, dtype):
    x = np.zeros((n, 1, 2), dtype=complex)
    for j in range(n):
        mode = rnd.random()
        base = rnd.uniform(-15, 15)
        v = []
        for _ in range(4):
            e = rnd.uniform(-15, 15) if mode < 0.4 else base + rnd.uniform(-1, 1)
            m = rnd.uniform(1, 10) * rnd.choice((-1, 1))
            v.append(0.0 if rnd.random() < 0.03 else m * 10.0 ** e)
        if mode > 0.9:                      # nearly fully polarised / equal hands: cancellation in Q, U, V
            v[2], v[3] = v[0] * (1 + rnd.uniform(-1e-6, 1e-6)), v[1]
        x[j, 0, 0], x[j, 0, 1] = complex(v[0], v[1]), complex(v[2], v[3])
    return x.astype(dtype)


def safe_events(chk, x, basis, dtype, dask, first_id, chunk_axis):
    """record_events; a failure of the real code on these valid inputs is a finding, not a machinery error"""
    try:
        return record_events(x, basis, dtype, dask, first_id=first_id, chunk_axis=chunk_axis)
    except Exception as ex:  # noqa
        chk.violation("trace:raised", "conversions of %s %s samples (%s, chunk axis %d) failed: %r"
                      % (dtype, basis, "dask" if dask else "numpy", chunk_axis, ex),
                      {"kind": "trace", "src": {"basis": basis, "dtype": dtype, "dask": dask, "first_dtype": SESSION[0],
                                                "chunk_axis": chunk_axis, "x": [float(v).hex() for v in flat4(x, 0)]}})
        return []


def run_trace(chk, rnd, child_events=()):
    n = 1000 if chk.tier == "thorough" else 70
    events = []
    for dtype in ("complex128", "complex64"):
        for basis in ("linear", "circular"):
            for dask in (False, True):
                x = random_samples(rnd, n // 2, dtype)
                events += safe_events(chk, x, basis, dtype, dask, len(events), len(events) // 5)
    events += list(child_events)
    src = {e["id"]: e.pop("src") for e in events}
    rejected, done = pfhelp.validate_parallel("Trace_Pol", events, nproc=8, timeout=1200, heap="2g", chk=chk)
    chk.validated += done
    chk.notes["trace_events"] = done
    for e, failed in rejected:
        s = src[e["id"]]
        chk.violation("trace:%s:%s" % (e["ev"], "+".join(sorted(failed))),
                      "%s event on %s %s sample %s (%s; the session converted %s data first) rejected by Trace_Pol: %s; recorded result %s"
                      % (e["ev"], s["dtype"], s["basis"], [float.fromhex(h) for h in s["x"]], "dask" if s["dask"] else "numpy",
                         s["first_dtype"], sorted(failed), [float(pfhelp.undy(v)) for v in e["y"]]),
                      {"kind": "trace", "src": s, "ev": e["ev"], "ulps": e.get("ulps")})
    e = events[3]
    chk.sample({"trace_event": e["ev"], "x": [float(pfhelp.undy(v)) for v in e["x"]], "y": [float(pfhelp.undy(v)) for v in e["y"]]})


def run_histories(chk, rnd):
    """Sequences on ONE object: a conversion, then a sanctioned change of that object (in-place ufunc /
    out=, pol_type assignment), then the conversion again.  The second result must be what a fresh
    object holding the new state gives (nothing remembered from the first call)."""
    import common
    from common import pb, u, Time
    n = 0
    convs = [("to_stokes", lambda z: z.to_stokes()), ("to_intensity", lambda z: z.to_intensity()),
             ("to_circular", lambda z: z.to_circular()), ("to_linear", lambda z: z.to_linear()),
             ("stokesI", lambda z: z.to_stokes()["I"])]
    for rep in range(12 if chk.tier == "quick" else 120):
        dtype = rnd.choice(["complex128", "complex64"])
        shape = rnd.choice([(5, 2, 2), (4, 1, 2, 3), (3, 3, 2)])
        rs = np.random.default_rng(rnd.randrange(1 << 30))
        data = (rs.integers(-3, 4, shape) + 1j * rs.integers(-3, 4, shape)).astype(dtype)
        for basis in ("linear", "circular"):
            for cname, conv in convs:
                for change in ("inplace_mul", "out_add", "pol_type"):
                    z = pb.DualPolarizationSignal(data.copy(), sample_rate=1 * u.MHz, center_freq=1 * u.GHz,
                                                  pol_type=basis, start_time=common.EPOCHS[0])
                    conv(z)
                    if change == "inplace_mul":
                        z *= 2
                    elif change == "out_add":
                        np.add(z, 1 - 2j, out=z)
                    else:
                        z.pol_type = "circular" if basis == "linear" else "linear"
                    got = conv(z)
                    fresh = pb.DualPolarizationSignal(np.array(z.data, copy=True), sample_rate=z.sample_rate,
                                                      center_freq=z.center_freq, pol_type=z.pol_type,
                                                      start_time=z.start_time)
                    exp = conv(fresh)
                    n += 1
                    same = type(got) is type(exp) and got.shape == exp.shape and \
                        np.array_equal(np.asarray(got.data), np.asarray(exp.data)) and \
                        getattr(got, "pol_type", None) == getattr(exp, "pol_type", None)
                    if not same:
                        chk.violation("history:%s-after-%s" % (cname, change),
                                      "%s after %s on the same object differs from the same conversion of a fresh "
                                      "object with the new state (basis %s, %s)" % (cname, change, basis, dtype),
                                      {"kind": "history", "conv": cname, "change": change, "basis": basis,
                                       "dtype": dtype, "shape": list(shape)})
    chk.validated += n
    chk.notes["history_sequences"] = n


def run(chk):
    rnd = random.Random(chk.seed)
    negs = {}
    for cfg in NEGS:
        r = tlc.run("MC_Pol", cfg, workers=2, timeout=300, heap="2g")
        chk.add_tlc("neg:" + cfg, r)
        negs[cfg] = r.violation
        if r.ok or r.violation is None:
            chk.machinery_errors.append("wrong variant %s was not rejected by TLC" % cfg)
    chk.notes["negative_models_rejected"] = negs
    groups = gen_cases(chk)
    if groups is None:
        return
    # the second session is forked now, before this process has converted anything
    _GROUPS.clear()
    _GROUPS.update(groups)
    pool = mp.get_context("fork").Pool(1)
    try:
        handle = pool.apply_async(child_session, ((chk.seed, chk.tier, 150 if chk.tier == "thorough" else 20),))
        replay_gen(chk, groups, rnd)
        viol, child_events, nchild = handle.get(timeout=1500)
    finally:
        pool.terminate()
    for key, desc, case in viol:
        chk.violation(key, desc, case)
    chk.validated += nchild
    chk.notes["second_session_complex64_first"] = {"lattice_samples": nchild, "trace_events": len(child_events)}
    run_batches(chk, groups)
    replay_refusals(chk, groups)
    run_trace(chk, rnd, child_events)
    run_histories(chk, rnd)
    chk.assumptions += [
        "TLC explores spec/Pol.tla exhaustively for Gaussian-integer samples of the stated range only; arbitrary float "
        "samples are covered by sampled trace validation",
        "IEEE arithmetic: one conversion costs at most 4 ulp of the sample norm, Stokes parameters 4 ulp of I "
        "(8 ulp after a conversion); ulp of the input's float kind",
        "dtype widening of complex64 results under NumPy 2 (division by the float64 scalar sqrt(2)) is not judged",
        "batches: K = 3 (4) equally shaped signals per history and all histories of one result kind per signal are converted "
        "before anything is judged, Dask results in one dask.compute; other groupings are not explored",
        "two sessions (processes): complex128 conversions before complex64 ones and the reverse; other interleavings are not explored"]


def replay(doc):
    import common
    c = doc["case"]
    if c["kind"] == "history":
        chk = framework.Check(PID, "quick", 0)
        chk._known = []
        run_histories(chk, random.Random(0))
        bad = [v for v in chk.violations if v[0] == doc["key"]]
        print("VIOLATION property=C13 replay=(this case)  # %s" % doc["key"] if bad else "case passes")
        return 1 if bad else 0
    first = c.get("first_dtype") or (c.get("src") or {}).get("first_dtype")
    if first:
        # put this process into the state of the session that found the case: its first conversions were of `first` data
        SESSION[0] = first
        for b in ("linear", "circular"):
            p = build(np.array([1 + 2j]), np.array([3 - 1j]), (1, 1), b, first, False)
            p.to_circular().to_linear().to_stokes()
            p.to_linear().to_circular()
    if c["kind"] == "refusal":
        chk = framework.Check(PID, "quick", 0)
        chk._known = []
        groups = gen_cases(chk)
        keep = {k: v for k, v in REFUSED.items() if list(k[1]) == c["hist"] and k[0] == c["basis"]}
        REFUSED.clear()
        REFUSED.update(keep)
        replay_refusals(chk, groups)
        for key, desc, _ in chk.violations:
            print("VIOLATION property=C13 replay=(this case)  # %s: %s" % (key, desc[:300]))
        if not chk.violations:
            print("case passes")
        return 1 if chk.violations else 0
    if c["kind"] == "batch":
        chk = framework.Check(PID, c.get("tier", "quick"), 0)
        chk._known = []
        groups = gen_cases(chk)            # the lattice and its expected values come from TLC again
        run_batch(chk, groups, c)
        bad = [v for v in chk.violations if v[0] == doc["key"]] or chk.violations
        for key, desc, _ in bad[:6]:
            print("VIOLATION property=C13 replay=(this case)  # %s: %s" % (key, desc[:400]))
        if not bad:
            print("case passes")
        return 1 if bad else 0
    if c["kind"] == "gen":
        chk = framework.Check(PID, "quick", 0)
        chk._known = []
        rec = {"o": c["o"], "cur": c["cur"]}
        # the single failing sample, repeated so that the recorded chunking is possible
        shape = (3, 1) + (3,) * (len(c.get("shape", [1, 1])) - 2)
        nrep = int(np.prod(shape))
        replay_group(chk, c["basis"], c["hist"], [rec] * nrep, shape, c["dtype"], c["dask"], c["kwi"], c.get("chunk_axis", 0))
        for key, desc, _ in chk.violations:
            print("VIOLATION property=C13 replay=(this case)  # %s: %s" % (key, desc))
        if not chk.violations:
            print("case passes")
        return 1 if chk.violations else 0
    s = c["src"]
    v = [float.fromhex(h) for h in s["x"]]
    x = np.array([[[complex(v[0], v[1]), complex(v[2], v[3])]]]).astype(s["dtype"])
    x = np.repeat(x, 3, axis=0)
    try:
        events = record_events(x, s["basis"], s["dtype"], s["dask"], chunk_axis=s.get("chunk_axis", 0))
    except Exception as ex:  # noqa
        print("VIOLATION property=C13 replay=(this case)  # trace:raised: %r" % (ex,))
        return 1
    for e in events:
        e.pop("src")
    rejected, _ = pfhelp.validate_parallel("Trace_Pol", events, nproc=1, timeout=300)
    for e, failed in rejected:
        print("VIOLATION property=C13 replay=(this case)  # trace:%s: %s rejected: %s" % (e["ev"], v, sorted(failed)))
    if not rejected:
        print("case passes")
    return 1 if rejected else 0
