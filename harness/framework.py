"""Shared check framework: violations, known findings, evidence, exit codes."""
import hashlib
import json
import os
import sys
import time

ROOT = os.path.dirname(os.path.dirname(os.path.abspath(__file__)))
EVID = os.environ.get("VERIF_EVIDENCE_DIR") or os.path.join(ROOT, "evidence")
CASES = os.environ.get("VERIF_CASES_DIR") or os.path.join(ROOT, "cases")
KNOWN = os.path.join(ROOT, "known_findings.json")


def load_known():
    try:
        with open(KNOWN) as f:
            return json.load(f)
    except FileNotFoundError:
        return {"findings": [], "fixed": []}


class Check:
    """One run of one property's check."""

    def __init__(self, pid, tier, seed):
        self.pid, self.tier, self.seed = pid, tier, seed
        self.t0 = time.time()
        self.states = 0
        self.transitions = 0
        self.validated = 0          # behaviours replayed + trace events validated
        self.samples = []
        self.violations = []        # (key, description, case)
        self.known_hits = {}        # finding id -> count
        self.notes = {}
        self.assumptions = []
        self.exhaustive = False
        self.mc_runs = []
        self.machinery_errors = []
        self._known = [k for k in load_known().get("findings", []) if k.get("property") == pid]

    # ---- TLC bookkeeping
    def add_tlc(self, name, r, exhaustive=False):
        self.states += r.distinct
        self.transitions += r.states
        self.mc_runs.append({"run": name, "distinct_states": r.distinct, "states_generated": r.states,
                             "depth": r.depth, "wall_s": round(r.wall, 2), "exhaustive": exhaustive,
                             "coverage": {k: list(v) for k, v in r.coverage.items()} or None})

    def mc_must_hold(self, name, r):
        """A model-checking run of the specification itself must pass; if it does
        not, the specification (machinery) is inconsistent -> exit 2."""
        self.add_tlc(name, r, exhaustive=True)
        if not r.ok:
            self.machinery_errors.append("TLC run %s: %s\n%s" % (name, r.violation or r.error, r.stdout[-3000:]))

    # ---- results
    def sample(self, s):
        if len(self.samples) < 6:
            self.samples.append(s)

    def violation(self, key, desc, case):
        """key: stable identifier of the failing input class (matched against
        known_findings.json); case: JSON-serialisable replayable case."""
        for k in self._known:
            if _match(k, key, case):
                self.known_hits[k["id"]] = self.known_hits.get(k["id"], 0) + 1
                return
        self.violations.append((key, desc, case))

    def finish(self):
        os.makedirs(EVID, exist_ok=True)
        os.makedirs(CASES, exist_ok=True)
        wall = time.time() - self.t0
        for k in self._known:
            if k["id"] in self.known_hits:
                print("KNOWN-FINDING: property=%s %s (%d occurrence(s) this run)"
                      % (self.pid, k["what"], self.known_hits[k["id"]]))
        shown = {}
        for key, desc, case in self.violations:
            if key in shown:
                shown[key][1] += 1
                continue
            h = hashlib.blake2b(json.dumps(case, sort_keys=True, default=str).encode(), digest_size=6).hexdigest()
            path = os.path.join(CASES, "%s-%s.json" % (self.pid, h))
            with open(path, "w") as f:
                json.dump({"property": self.pid, "key": key, "desc": desc, "case": case}, f, indent=1, default=str)
            shown[key] = [path, 1, desc]
        for key, (path, n, desc) in list(shown.items())[:40]:
            print("VIOLATION property=%s replay=%s  # %s: %s (%d case(s))" % (self.pid, path, key, desc[:300], n))
        cov = {
            "states": max(self.states, 0), "transitions": max(self.transitions, 0),
            "traces_validated_against_impl": self.validated,
            "samples": self.samples or ["(no sample recorded)"],
            "evaluations": self.validated,
            "exhaustive": bool(self.exhaustive),
            "tlc_runs": self.mc_runs,
            "known_findings_hit": self.known_hits,
        }
        cov.update(self.notes)
        ev = {"property_id": self.pid, "tier": self.tier, "seed": self.seed, "level": "model_checking",
              "coverage": cov, "assumptions": self.assumptions, "wall_s": round(wall, 2),
              "violations": len(self.violations)}
        with open(os.path.join(EVID, self.pid + ".json"), "w") as f:
            json.dump(ev, f, indent=1, default=str)
        if self.machinery_errors:
            for e in self.machinery_errors:
                print("MACHINERY-ERROR property=%s %s" % (self.pid, e), file=sys.stderr)
            return 2
        if self.violations:
            return 1
        print("OK property=%s tier=%s states=%d transitions=%d validated=%d wall=%.1fs"
              % (self.pid, self.tier, self.states, self.transitions, self.validated, wall))
        return 0


def _match(k, key, case):
    """A known finding matches by exact key or key prefix (its 'key' field)."""
    pat = k.get("key")
    if pat is None:
        return False
    if pat.endswith("*"):
        return key.startswith(pat[:-1])
    return key == pat
