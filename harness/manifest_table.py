"""Per-property entries of MANIFEST.json (see gen_manifest.py)."""
TB = ("Trusted: TLC, the TLA+ numeric kernel (self-tested in setup), the abstraction function in harness/ "
      "(common.py, the replayer), NumPy/astropy/Dask as libraries. Exhaustive only within the constants of the MC config; "
      "beyond them sampled.")
CHECKS = {
    "C01": ("TLA+ spec Pipeline.tla model-checked by TLC (ledger/timestamp invariants over all slice and crop pipelines "
            "within bounds) + replay of TLC-generated behaviours on the real objects with an exact-rational time ledger",
            "TLC checks the timestamp/ledger invariants on the operational model of every cropping operation for all "
            "small lengths, bounds, steps and depth-2 pipelines; every distinct depth-1 outcome and sampled depth-3 "
            "behaviours are replayed on real signals under mHz..GHz concretisations and compared field by field with "
            "the specification's post-state (start/stop time, rate, length, origin of each retained sample, contains()).",
            TB, "DESIGN.md §4 C01"),
}
CHECKS["C02"] = (
    "TLA+ spec Pipeline.tla (FreqSlice/TFSlice/StokesItem actions; invariants LabelsKept, LabelsInBand) model-checked by TLC "
    "+ replay of TLC-generated channel-selection behaviours on real radio signals with exact-rational label comparison",
    "TLC checks that labels follow the band model and that every (nested, combined) channel selection keeps the selected "
    "labels, for all nchan<=6 (8 thorough), alignments and a:b in range; the one structural conflict (stepped baseband "
    "time+frequency slice) is named in the spec, shown reachable by a negative config and listed as a known finding. "
    "Generated behaviours are replayed on all radio classes over decades of cf/cbw/units; labels, cf, cbw, align, band edges "
    "and the origin of each retained channel are compared with the spec.",
    TB, "DESIGN.md §4 C02")
CHECKS["C16"] = (
    "TLA+ spec Contract.tla (constructor-argument catalogue, Build transcribed from __init__/setters vs declarative contract) "
    "model-checked by TLC; every generated constructor call, assignment and copy replayed on the real classes; contract "
    "checker applied to every result of TLC-generated Pipeline behaviours",
    "TLC enumerates every constructor call that deviates from a valid call in up to 2 (3 thorough) arguments over a "
    "catalogue of valid/invalid kinds (shapes, 15 dtypes, rates, times, meta, cf, cbw, align, pol) and checks accept/refuse "
    "against the declarative contract; each case is replayed on the real constructors (NumPy and Dask), setters, like(), "
    "pickle/cloudpickle and the Dask helpers, and the contract is evaluated on every object produced by generated pipelines.",
    TB, "DESIGN.md §4 C16")
CHECKS["C10"] = (
    "TLA+ spec Concat.tla (split -> mask start times -> perturb one piece -> concatenate transcribed check by check) "
    "model-checked by TLC for identity, associativity and refusal; every generated case replayed on real signals",
    "TLC explores every cut set (incl. repeated/end cuts), every pattern of missing start times, every single "
    "perturbation (one-sample gap/overlap, swap, rate x2 and x(1+2^-10), class, chan_bw, labels +-1 channel, start time on "
    "the non-time axis) and every grouping for <=3 (4 thorough) pieces along time and frequency; each generated case is "
    "replayed on the real classes at 1 mHz..2 GHz and must reproduce the original bit for bit or raise.",
    TB, "DESIGN.md §4 C10")
CHECKS["C14"] = (
    "TLA+ spec Alias.tla (buffers, views, per-operation write targets; action property Frame) model-checked by TLC; "
    "TLC-generated operation sequences over shared inputs replayed on the real code with byte-wise buffer and metadata "
    "hashes, validated event by event by Trace_Alias.tla",
    "TLC checks Frame over all depth-3 sequences of 33 operations on shared inputs (a negative config with the pinned "
    "in-place istft is rejected); every depth-2 behaviour and sampled depth-3 behaviours are executed on real signals "
    "(contiguous and strided, complex/real, success and error paths, array/Quantity arguments) and TLC decides from the "
    "recorded hashes whether any buffer other than the sanctioned out=/in-place target changed; in addition every "
    "generated Pipeline and Concat behaviour snapshots all inputs before/after each call.",
    TB, "DESIGN.md §4 C14")
CHECKS["C17"] = (
    "TLA+ model (Ufunc.tla) of NumPy's __array_ufunc__ override resolution and of Signal.__array_ufunc__ / __array__, "
    "model-checked by TLC; every generated operand arrangement replayed on the real classes with all of NumPy's ufuncs; "
    "traced real calls validated by TLC (Trace_Ufunc.tla)",
    "TLC exhaustively checks nine clauses (wrap as the resolved signal, out is returned / keeps its metadata, refusals, "
    "dtype contract, asarray is data ...) over all arrangements of up to 3 (4 thorough) operands from six classes, arrays, "
    "scalars, Quantities and dask arrays, all methods and out forms and in-place chains of length 3, and rejects seven "
    "wrong-handler models. Conformance: ~7k (quick) / ~62k (thorough) replays and traced events across 98 ufuncs, NumPy and "
    "Dask data, compared bitwise with the raw-array result.",
    TB + " NumPy is the value oracle on raw arrays (the property defines the result that way).", "DESIGN.md §4 C17")
CHECKS["C09"] = (
    "TLA+ specification of Dask-backed signals (Dask.tla: chunk grids, per-operation task-graph rules, symbolic per-sample "
    "values, nondeterministic task execution) model-checked by TLC; TLC-generated pipelines, chunk layouts and schedules "
    "replayed on sentinel-instrumented Dask arrays; TLC trace validation (Trace_Dask.tla) of every public call",
    "TLC exhaustively checks Lazy, StaysDask, ContainerOnly, SameAsNumpy and OrderIndependent for every chunk grid of "
    "small arrays (<= 12 tasks), depth-2 pipelines over 39 operation instances and every order of task execution, and "
    "rejects four wrong models. The real code is compared with the NumPy-backed result (bitwise; <= 1e-6 relative for "
    "FFT-based operations) under the synchronous, threaded, process and TLC-forced schedules; laziness and container-only "
    "clauses are decided by TLC on recorded events from replays, drivers, readers and the repository's tests.",
    TB + " Dask schedulers are libraries; the sentinel counter sees in-process execution only.", "DESIGN.md §4 C09")
CHECKS["C08"] = (
    "TLA+ specs PolycoSpans/MC_Polyco model-checked by TLC for the span-merge and entry-selection logic + TLC trace "
    "validation (Trace_Polyco.tla) of recorded calls of the real PhasePredictor against the tempo formula evaluated in "
    "exact rationals by TLC from the polyco text bytes",
    "TLC checks exhaustively, on a half-millisecond TMID lattice with <=4 (5 thorough) equal-span rows, that the intervals "
    "loop yields the declared union with 1 ms joining, that the searchsorted row contains every in-span time and that exactly "
    "the times outside every interval raise (two negative models rejected). Every recorded p(t), f0, phasepol, time_at, "
    "intervals and row-subset call on generated polycos (1-6 entries, NCOEFF 1-15, D/E exponents, signs, spans 10-1440 "
    "min, F0 0.1-700 Hz, |RPHASE| < 1e12) and on timing.dat is decided by TLC at the property's tolerances; the text "
    "travels as bytes and TLC parses it itself.",
    TB + " astropy Time and UTC<->TAI (checked per event at 2^-49 day); leap-second days avoided.", "DESIGN.md §4 C08")
CHECKS["C07"] = (
    "TLA+ spec Phase.tla (exact-rational Phase algebra, dispatch table) model-checked as a register machine on the "
    "1/8-cycle lattice; day_frac transcribed over a toy binary floating point (DayFrac.tla) and checked for every pair of "
    "toy floats; TLC trace validation (Trace_Phase.tla) of events recorded from the real class with BigInt/Rat arithmetic",
    "TLC decides the algebraic laws (add/sub and mul/div inverses, i*i = -1, divmod law, normal form, result kind) for all "
    "lattice phases within the bounds and the day_frac algorithm for all pairs of 4/5-bit toy floats (this found the "
    "|frac| > 1/2 defect). Thousands (quick) / 55k (thorough) real calls over every operand kind, both orders, real and "
    "imaginary, counts up to 2^52, are recomputed exactly by TLC and must be Phase, normalised, correctly flagged and "
    "within 2^-52 cycle; trig results must match CosSin(frac) at 1e-12 and be identical for equal fractions.",
    TB + " In-place / out= ufunc forms of Phase are not exercised.", "DESIGN.md §4 C07")
CHECKS["C15"] = (
    "TLA+ spec PhaseText.tla (TLC's own decimal parser and 'rounded to the digits shown') with model-checked "
    "transcriptions of from_string / do_format on a small grammar and lattice; TLC trace validation of real comparisons, "
    "reductions and text I/O decided on exact values",
    "Every string of the small grammar instance and every lattice value/precision is checked against the spec; 3.5k "
    "(quick) / 53k (thorough) real events: comparison truth values, extremum indices, sorted permutations and ptp on arrays "
    "with ties and one-ulp near-ties decided exactly; from_string within 2^-52 with the right flag; to_string/format equal "
    "to the exactly rounded value (default within 1e-16); round trip.",
    TB + " Text is compared as UTF-8 bytes parsed by TLC.", "DESIGN.md §4 C15")
CHECKS["C13"] = (
    "TLA+ spec Pol.tla: exact Gaussian-integer model of the basis change and Stokes algebra, model-checked over the whole "
    "lattice; generated behaviours replayed on real signals; TLC validates recorded float samples in exact dyadic arithmetic "
    "(Trace_Pol.tla)",
    "Every clause (power kept, round trip, identity in own basis, Stokes formulas, basis independence, I^2=Q^2+U^2+V^2, "
    "I>=0, I = sum of to_intensity, item access) is an invariant decided exhaustively for all Gaussian-integer samples with "
    "|component| <= 2 (3 thorough), both bases and chains of up to 2 (3) conversions; three wrong variants (swapped L/R, "
    "conjugation, sign of V) are rejected. Arbitrary float samples over 30 decades, both widths, NumPy and Dask are decided "
    "per sample by TLC within a stated ulp budget.",
    TB, "DESIGN.md §4 C13")
CHECKS["C18"] = (
    "TLA+ spec FastLen.tla: statement-level transcription of both 7-5-3-2 search loops model-checked for every N of a range "
    "(termination as bounded steps + deadlock check, result = declarative nearest 7-smooth number); Smooth.tla enumerates the "
    "7-smooth lattice below 2^62 as a reachable set; both replayed on the real functions; Trace_FastLen.tla for arbitrary N",
    "Exhaustive for 0 <= N <= 20000 (200000 thorough) on the loops, and at and next to every 7-smooth number below 2^62 on "
    "the real code (5000 sampled pairs quick, all 75710 pairs thorough); fast_len decided on all lengths <= 64 plus lazy "
    "lengths up to 3e9 through the C01 ledger; random N < 2^62 validated by TLC with BigInt division.",
    TB + " Beyond N = 200000 the loops themselves are not model-checked, only their input/output relation.", "DESIGN.md §4 C18")
CHECKS["C20"] = (
    "TLA+ specs FftFamily.tla / Stft.tla: the fourteen transforms and STFT/ISTFT defined from the kernel DFT and the band "
    "model, definitions model-checked (NamesDistinct, inverse pairs, labels are true frequencies); TLC's expected arrays "
    "replayed on pb.fft and contrib.stft/istft together with a direct comparison against scipy.fft/numpy.fft; "
    "Trace_Stft.tla for large nperseg",
    "Exhaustive over the stated shape/axis/n/s/norm/dtype matrix (6 shapes, 14 names, NumPy and Dask, lazy) and over nchan "
    "<= 3, every alignment, nperseg <= 4 (6 thorough) and every bin-centred tone; larger sizes sampled or judged against the "
    "reference implementation only.",
    TB + " scipy.fft is the named reference.", "DESIGN.md §4 C20")
CHECKS["C11"] = (
    "TLA+ state machine Reader.tla of concurrent reads (open/seek/read/close on a fresh handle) over a frame/file model, "
    "model-checked by TLC incl. a rejected shared-handle negative model; TLC-generated interleavings forced on the real "
    "readers through a _get_fh proxy; recorded reads, offsets and metadata validated by Trace_Reader.tla",
    "Every completed read equals content[o..o+n) for all interleavings of 2 readers x 2 reads and 3 readers x 1 read on "
    "small files (9 file configurations: complex/real/multi-file/Stokes, USB/LSB/masked). On the real code all 70 two-read "
    "interleavings are forced and three-read interleavings sampled; thousands of sequential, Dask, mutate-then-read and "
    "thread-pool reads on 18 file sets (12 written by the harness with known ramp content + the sample files) and "
    "offset_at(time_at(k)) for every k are decided by TLC against the file model.",
    TB + " The baseband package is the file writer/reader of reference.", "DESIGN.md §4 C11")
CHECKS["C19"] = (
    "TLA+ spec R2C.tla: operational definition of real_to_complex on the 60-bit fixed-point kernel; TLC checks the "
    "declarative clauses on all small inputs; every such input replayed on the real function for every dtype, rank and "
    "axis; random and reader-path lanes validated by Trace_R2C.tla",
    "Exhaustive over {-1,0,1}^N for N <= 6 plus basis vectors and integer tones for N <= 12 at 2^-50 (length, real part, "
    "analytic, mix, linearity, tone shift, dtype, axis); a wrong Nyquist-weight variant is rejected. The code is replayed "
    "at 1e-12 (1e-5 single precision) on ~18k calls; the real-sampled reader path is decided at N <= 16.",
    TB, "DESIGN.md §4 C19")
CHECKS["C03"] = (
    "TLA+ specs TimeShift.tla / ShiftOps.tla model-checked by TLC (operational nditer zero loop and crop window vs the "
    "per-element declarative statement); TLC-computed DFT expectations (kernel Dft) replayed on pb.time_shift; tone-probe "
    "traces validated by Trace_Shift.tla",
    "TLC proves the operational model equals the property for all N <= 6 (9 thorough), seven sample shapes, every accepted "
    "shift-array shape and the quarter-sample lattice (zero region per element, crop = edge removal, integer shifts move "
    "samples, metadata unchanged) and rejects the un-repaired loop. ~3.5k (31k) generated cases with TLC's expected samples "
    "(N <= 8) are replayed over dtypes, classes, shift forms and Dask: exact zeros, values at 1e-5, crop identity; larger N "
    "(to 4096) by tone probes decided by TLC with CosSin.",
    TB + " Values are judged at 1e-5*max|x| because the code casts its phase ramp to complex64; shifts |s| <= 1e-8 are a "
    "no-op by np.allclose (named deviation TinyShiftIsNoOp, outside the lattice).", "DESIGN.md §4 C03")
CHECKS["C04"] = (
    "TLA+ spec FreqShift.tla model-checked by TLC (zero loop over the un-broadcast ft*N, scalar -> (1,)); expected spectra "
    "and samples from TLC replayed on pb.freq_shift; impulse and tone probes validated by Trace_Shift.tla",
    "As C03 in the frequency domain: ZeroBinsExact per element (boundary bin of whole-bin shifts unconstrained), whole-bin "
    "shifts are circular moves, |shift| >= bandwidth gives zero, metadata unchanged, exhaustive for N <= 6 (9) and every "
    "shift shape; the pinned loop is rejected. ~3.5k (31k) generated cases replayed (complex64/128, Baseband and DualPol, four "
    "frequency units, NumPy/Dask); zero bins judged on the DFT of the output.",
    TB, "DESIGN.md §4 C04")
CHECKS["C12"] = (
    "TLA+ spec Snippet.tla (operational transcription incl. int(t) truncation and residual shift vs declarative statement) "
    "and the Pipeline instance MC_PipelineSnip, model-checked by TLC; every in-bounds request in three forms replayed on "
    "pb.snippet (bitwise slice for whole t, TLC DFT interpolation for fractional t) + the shared pipeline replayer",
    "Exhaustive within len <= 6 (9): exactly n samples, exact start, samples at the requested times, whole-sample = slice, "
    "no zero fill, the three forms of t agree, refusals; a round-instead-of-int variant is rejected. ~3.8k (94k) replays incl. "
    "t+n = len, n = 0, n = len, every out-of-range combination, Time without start time; duration/Time forms judged up to "
    "time resolution.",
    TB, "DESIGN.md §4 C12")
CHECKS["C05"] = (
    "TLA+ spec Dedisp.tla (exact delay / chirp laws, coherent crop) model-checked by TLC; recorded chirp arrays and "
    "dedispersed signals validated by Trace_Dedisp.tla, which recomputes each bin's phase from the exact float arguments, "
    "reduces it modulo one cycle on integers and evaluates CosSin",
    "Crop, start-advance, round-trip and chirp-algebra invariants (ChirpIsDelay ties the chirp to the delay law exactly) are "
    "exhaustive for len <= 8 on a quarter-sample lattice; three wrong models rejected. The law is decided per event on "
    "thousands of seeded calls over DM +-1e-4..1e3, 100 MHz-10 GHz, kHz-100 MHz, N in {8,15,16,23,64,100}, nchan 1-4, all "
    "alignments and reference positions; whole outputs from the TLA+ DFT for N <= 8, tones for larger N; supplied chirp and "
    "DM/-DM round trip.",
    TB + " Chirp tolerance 2e-6 + a per-event float64 phase-rounding budget derived in Trace_Dedisp.tla; a bounded-precision "
    "(>= 106-bit) evaluator is cross-checked against exact Rat on marked events.", "DESIGN.md §4 C05")
CHECKS["C06"] = (
    "TLA+ spec Dedisp.tla: operational vs declarative incoherent realignment and the delay algebra model-checked by TLC; "
    "Gen_Dedisp cases replayed on the real code; Trace_Dedisp.tla judges time_delay / sample_delay events by "
    "cross-multiplication in Rat and incoherent_dedispersion events whose samples encode (time, channel)",
    "Exhaustive for len <= 8, nchan <= 4, monotone integer delay vectors in -10..10 (RealignDecl, OnlyValidSources, "
    "StartAdvance, NoWrap, delay antisymmetry/additivity); the law is decided on thousands of calls, 10 MHz-30 GHz in four "
    "units, two DM units; every output sample of every radio class (NumPy/Dask, with/without start time, trailing dims) is "
    "traced to its source through the stamped start time.",
    TB + " Delays within 1e-6 of a half-integer are ambiguous (never a violation); returning fewer than all valid samples "
    "is not a violation (the property says 'only').", "DESIGN.md §4 C06")
NA = {}
