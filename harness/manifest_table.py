"""Per-property entries of MANIFEST.json (see gen_manifest.py)."""
TB = ("Trusted: TLC, the TLA+ numeric kernel (self-tested in setup), the abstraction function in harness/ "
      "(common.py, the replayer), NumPy/astropy/Dask as libraries. Exhaustive only within the constants of the MC config; "
      "beyond them sampled.")
CHECKS = {
    "C01": ("TLA+ spec Pipeline.tla model-checked by TLC (ledger/timestamp invariants over all slice and crop pipelines "
            "within bounds) + replay of TLC-generated behaviours on the real objects with an exact-rational time ledger",
            "TLC checks the timestamp/ledger invariants on the operational model of every cropping operation for all "
            "small lengths, bounds, steps and depth-2 pipelines; every distinct depth-1 outcome and sampled depth-3 "
            "behaviours are replayed on real signals under mHz..GHz concretisations and compared field by field with "
            "the specification's post-state (start/stop time, rate, length, origin of each retained sample, contains()).",
            TB, "DESIGN.md §4 C01"),
}
NA = {}
