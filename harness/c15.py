"""C15 - Phase ordering, reductions and decimal I/O use the full two-part value.

1. MC: spec/MC_PhaseText.tla - every string of a small instance of the decimal
   grammar through the transcription of from_string vs the specification's
   Decimal; every (count, frac, precision) of a dyadic lattice through the
   transcription of do_format vs "exact value rounded to the digits shown";
   the pinned transcriptions must be rejected (vacuity).
2. code -> Trace: comparisons, min/max/argmin/argmax/sort/argsort/ptp (methods
   and NumPy functions, every axis) on arrays with ties and near-ties below one
   ulp of the count, decided by TLC on exact values; from_string / to_string /
   format / round trip with TLC parsing the text itself (spec/PhaseText.tla).
"""
import random

import tlc
import phase_drv as pd
from phase_drv import hx
from c07 import ot, as_phase_ot, count, fraction, phase, P52, BIG_COUNTS

PID = "C15"
EPS = [2.0 ** -60, 2.0 ** -56, 1e-17, 2.0 ** -53, 3e-17, 1e-20, 5e-324]


def near(rnd, f):
    """a fraction next to f, closer than one ulp of any count >= 1"""
    g = f + rnd.choice([-1, 1]) * rnd.choice(EPS)
    if g == f:
        import math
        g = math.nextafter(f, rnd.choice([-1.0, 1.0]))
    return min(0.5, max(-0.5, g))


def gen_cmp(rnd, n):
    out = []
    ops = ["lt", "le", "eq", "ne", "ge", "gt"]
    for _ in range(n):
        op = rnd.choice(ops)
        big = rnd.random() < 0.6
        c = count(rnd, big=big)
        f = rnd.choice([0.0, 0.25, -0.25, 0.1, 0.49, -0.4999, rnd.uniform(-0.49, 0.49)])
        style = rnd.random()
        kind = rnd.choice(["phase", "phase", "phasearr", "cycleq", "cycleqarr", "pyfloat", "npfloat", "arrn", "pyint",
                           "arr0", "angle"])
        m = rnd.choice([2, 3, 4]) if kind in pd.ARRAY_KINDS or rnd.random() < 0.25 else None
        arr = m is not None and (kind not in pd.ARRAY_KINDS or rnd.random() < 0.5)
        cnt = m if arr else 1
        if arr:
            ph = {"i": [hx(c)] * cnt, "f": [hx(f if j == 0 else near(rnd, f)) for j in range(cnt)], "im": False,
                  "shape": [cnt]}
        else:
            ph = {"i": [hx(c)], "f": [hx(f)], "im": False, "shape": None}
        if kind in ("phase", "phasearr"):
            k = m if kind == "phasearr" else 1
            if style < 0.25:                    # exact tie
                fs = [f] * k
            elif style < 0.85:                  # near-tie: differs only in the fraction, far below ulp(count)
                fs = [near(rnd, f) for _ in range(k)]
            else:
                fs = [fraction(rnd) for _ in range(k)]
            o = {"kind": kind, "i": [hx(c if style < 0.85 else c + rnd.choice([-1, 0, 1]))] * k, "f": [hx(x) for x in fs],
                 "im": False, "shape": [k] if kind == "phasearr" else None}
        else:
            # a single double: the count itself, so that only the fraction of the phase decides
            def val(integer, c=c):
                return int(c) if integer else (c if rnd.random() < 0.7 else c + rnd.choice([0.5, -0.5, 0.25]))
            if kind in ("pyint",):
                o = ot(kind, [val(True)])
            elif kind in pd.ARRAY_KINDS:
                o = ot(kind, [val(False) for _ in range(m)], shape=[m])
            else:
                o = ot(kind, [val(False)])
            if not arr:
                ph["f"] = [hx(rnd.choice([0.0, 1e-20, -1e-20, 2.0 ** -60, -(2.0 ** -55), f]))]
        out.append({"ev": "cmp", "op": op, "ord": rnd.choice(["po", "op"]), "ph": ph, "ot": o,
                    "form": rnd.choice(["operator", "operator", "ufunc", "ufunc-out", "ufunc-where"])})
    # imaginary phases: equality only
    for _ in range(max(2, n // 25)):
        c, f = count(rnd), rnd.uniform(-0.5, 0.5)
        ph = {"i": [hx(c)], "f": [hx(f)], "im": True, "shape": None}
        o = {"kind": "phase", "i": [hx(c)], "f": [hx(rnd.choice([f, near(rnd, f)]))], "im": True, "shape": None}
        out.append({"ev": "cmp", "op": rnd.choice(["eq", "ne"]), "ord": "po", "ph": ph, "ot": o})
    return out


SHAPES = [([2], [None, 0, -1]), ([5], [None, 0]), ([8], [None, -1]), ([2, 3], [None, 0, 1, -1]),
          ([3, 4], [None, 0, 1, -1, -2]), ([2, 2, 2], [None, 0, 1, 2, -1, -2, -3])]
RED_FNS = ["min", "max", "argmin", "argmax", "sort", "argsort", "ptp"]


def layout(rnd, shape):
    """memory layout as a generated dimension: C-contiguous as built, transposed / swapped-axes
    view, Fortran-ordered copy, strided slice, reversed view"""
    if len(shape) == 1:
        return rnd.choice(["C", "C", "rev", "strided"])
    return rnd.choice(["C", "C", "T", "T", "swap", "F", "strided", "rev"])


def gen_red(rnd, n):
    out = []
    for j in range(n):
        shape, axes = rnd.choice(SHAPES)
        size = 1
        for d in shape:
            size *= d
        big = rnd.random() < 0.6
        c = count(rnd, big=big)
        f = rnd.choice([0.0, 0.25, -0.3, rnd.uniform(-0.49, 0.49)])
        ii, ff = [], []
        for _ in range(size):
            r = rnd.random()
            if r < 0.3:                          # exact tie with the base element
                ii.append(c), ff.append(f)
            elif r < 0.7:                        # near-tie below one ulp of the count
                ii.append(c), ff.append(near(rnd, f))
            elif r < 0.85:                       # neighbouring counts, mixed signs
                ii.append(rnd.choice([c + 1, c - 1, -c])), ff.append(rnd.choice([f, -f, near(rnd, f)]))
            else:
                ii.append(count(rnd, big=big)), ff.append(fraction(rnd))
        ii = [x if abs(x) <= P52 else c for x in ii]
        fn = RED_FNS[j % len(RED_FNS)]
        lay, ax = layout(rnd, shape), rnd.choice(axes)
        if len(shape) > 1 and rnd.random() < 0.3:      # the flattened reduction of a non-contiguous array
            lay, ax = rnd.choice(["T", "swap", "F", "T"]), None
        out.append({"ev": "red", "fn": fn, "form": "numpy" if rnd.random() < 0.45 else "method",
                    "axis": ax, "axpos": rnd.random() < 0.4,        # axis by position or by keyword
                    "layout": lay,
                    "ph": {"i": [hx(x) for x in ii], "f": [hx(x) for x in ff], "im": False, "shape": shape}})
    return out


VIEWS = {1: [{"kind": "head", "n": 3}, {"kind": "tail", "n": 2}, {"kind": "step"}, {"kind": "flat", "a": 1, "b": 4},
             {"kind": "ravel"}],
         2: [{"kind": "head", "n": 1}, {"kind": "tail", "n": 1}, {"kind": "flat", "a": 1, "b": 5}, {"kind": "ravel"},
             {"kind": "T"}, {"kind": "row", "n": 0}, {"kind": "row", "n": 1}, {"kind": "col", "n": 0}, {"kind": "col", "n": 2}],
         3: [{"kind": "head", "n": 1}, {"kind": "flat", "a": 2, "b": 7}, {"kind": "ravel"}, {"kind": "T"},
             {"kind": "row", "n": 1}, {"kind": "col", "n": 1}]}


def gen_hist(rnd, n):
    """same-object histories: read / reduce, update in place through a view of
    the same memory (+=, -= on a slice, reshape, transpose, row, column view),
    reduce / compare again - judged on the values the array holds then"""
    out = []
    for j in range(n):
        shape, axes = rnd.choice([s for s in SHAPES if s[0] != [2]])
        size = 1
        for d in shape:
            size *= d
        c = float(rnd.choice([0, 1, 12345, 2 ** 30 + 7, 2 ** 40 + 3, 2 ** 49 + 1, -(2 ** 45) - 5]))
        f = rnd.choice([0.0, 0.25, -0.3, rnd.uniform(-0.45, 0.45)])
        ff = [f if rnd.random() < 0.3 else near(rnd, f) for _ in range(size)]      # ties and near-ties only
        ph = {"i": [hx(c)] * size, "f": [hx(x) for x in ff], "im": False, "shape": shape}

        def red():
            return {"do": "red", "fn": rnd.choice(RED_FNS), "form": rnd.choice(["method", "numpy"]),
                    "axis": rnd.choice(axes), "axpos": rnd.random() < 0.3}

        def upd():
            delta = rnd.choice([2.0 ** 47, 2.0 ** 50, -(2.0 ** 48), 2.0 ** 44 + 1, 1.0, 1e6, 2.0 ** 51 - c])
            kind = rnd.choice(["pyfloat", "pyint", "npfloat", "cycleq", "phase"])
            if kind == "phase":
                o = {"kind": "phase", "i": [hx(delta)], "f": [hx(0.0)], "im": False, "shape": None}
            else:
                o = ot(kind, [delta])
            return {"do": "upd", "view": rnd.choice(VIEWS[len(shape)]), "op": rnd.choice(["add", "add", "sub"]), "ot": o}

        steps = [rnd.choice([red(), {"do": "read", "what": rnd.choice(["value", "cycle", "int", "frac"])}])]
        for _ in range(rnd.choice([1, 1, 2])):
            steps.append(upd())
            steps.append(red())
            if rnd.random() < 0.3:
                steps.append({"do": "cmp", "op": rnd.choice(["lt", "le", "eq", "ne", "ge", "gt"]),
                              "form": rnd.choice([None, "ufunc", "ufunc-out", "ufunc-where"]),
                              "ot": {"kind": "phase", "i": [hx(c)], "f": [hx(f)], "im": False, "shape": None}})
        out.append({"ev": "hist", "ph": ph, "steps": steps, "layout": layout(rnd, shape)})
    return out


def gen_red_directed(rnd):
    """near-ties one ulp of the *fraction* apart, at counts whose double
    resolution is 1/2 or 1/4 cycle (so that count + frac rounds): every
    reduction, both forms; always present, whatever the seed."""
    import math
    out = []
    for c in (2.0 ** 51, 2.0 ** 51 + 1, -(2.0 ** 51), 2.0 ** 50 + 3, 2.0 ** 52 - 2):
        for f0 in (0.3939987063411339, -0.3863335089645841, 0.2600000000000001, 0.12):
            f1 = math.nextafter(f0, 1.0)
            f2 = math.nextafter(f1, 1.0)
            pool = [f2, f1, f0, f1, f0, f2]
            for fn in RED_FNS:
                ff = pool[:]
                if rnd.random() < 0.5:
                    rnd.shuffle(ff)
                shape, axis = rnd.choice([([6], None), ([6], 0), ([2, 3], 1), ([3, 2], 0)])
                out.append({"ev": "red", "fn": fn, "form": rnd.choice(["method", "method", "numpy"]), "axis": axis,
                            "axpos": rnd.random() < 0.3,
                            "ph": {"i": [hx(c)] * 6, "f": [hx(x) for x in ff], "im": False, "shape": shape}})
    # near-ties on either side of a half-integer: different counts, fractions of opposite sign, the
    # one-double sums count + frac coincide (any ordering that consults the rounded value gets them wrong)
    for c in (1e10, 2.0 ** 40, -1e10, -(2.0 ** 40) - 1, 2.0 ** 33 + 7, 12345678901.0):
        for e in (0.4999999, 0.49999995, 0.499999999):
            ii = [c + 1, c, c + 1, c, c - 1, c]
            ff = [-e, e, -math.nextafter(e, 0.0), math.nextafter(e, 0.0), e, -e]
            for fn in RED_FNS:
                order = list(range(6))
                if rnd.random() < 0.5:
                    rnd.shuffle(order)
                shape, axis = rnd.choice([([6], None), ([6], 0), ([2, 3], 1), ([3, 2], 0), ([6], -1)])
                out.append({"ev": "red", "fn": fn, "form": rnd.choice(["method", "numpy"]), "axis": axis,
                            "axpos": rnd.random() < 0.3,
                            "ph": {"i": [hx(ii[k]) for k in order], "f": [hx(ff[k]) for k in order], "im": False,
                                   "shape": shape}})
    return out


# ---------------------------------------------------------------------- text
BRIEF_STRINGS = ["5", "5.0", ".5", "0.5", "1e3", "-0.18e-2", "0.0", "0", "1.25e2", "125e-2", "1.5", "-1.5", "+1.5", "1.5j",
                 "0.5j", "5j", "0j", "0.0j", "-0.0", "1.25D2", "1.25d-2", "1.25E+2", "-.5", "+.25e1", "00012.500",
                 "9876543210.123456789012345678", "4503599627370495.25", "-4503599627370496", "0.000000000000000000001",
                 "1e-25", "123456789012345678901234567890e-15", "3.2", "0.25", "0.75", "1e0", "2.5e-1j", "-7.125D+1j"]


def digits(rnd, n, lead_nonzero=False):
    s = "".join(rnd.choice("0123456789") for _ in range(n))
    if lead_nonzero and s and s[0] == "0":
        s = rnd.choice("123456789") + s[1:]
    return s


def spelling(rnd):
    form = rnd.choice(["int", "int.frac", ".frac", "0.frac", "int.0", "exp", "exp", "exp"])
    nint = rnd.choice([1, 1, 2, 3, 6, 9, 12, 15])
    nfrac = rnd.choice([1, 1, 2, 3, 6, 10, 15, 20, 30 - nint if nint < 29 else 1])
    nfrac = max(1, min(nfrac, 30 - nint))
    ip = digits(rnd, nint, lead_nonzero=rnd.random() < 0.85)
    fp = digits(rnd, nfrac)
    if form == "int":
        s = ip
    elif form == "int.frac":
        s = ip + "." + fp
    elif form == ".frac":
        s = "." + fp
    elif form == "0.frac":
        s = "0." + fp
    elif form == "int.0":
        s = ip + "." + "0" * rnd.choice([1, 1, 3])
    else:
        mant = rnd.choice([ip, ip + "." + fp, "." + fp, "0." + fp, ip[:1] + "." + ip[1:] + fp])
        nip = len(mant.split(".")[0])
        k = rnd.randint(-22, max(0, 15 - nip))
        s = mant + rnd.choice("eEdD") + (rnd.choice(["", "+"]) if k >= 0 else "") + str(k)
    s = rnd.choice(["", "", "", "-", "+"]) + s
    if rnd.random() < 0.2:
        s += "j"
    return s


def gen_from_string(rnd, n):
    out = [{"ev": "from_string", "s": s} for s in BRIEF_STRINGS]
    for _ in range(n):
        out.append({"ev": "from_string", "s": spelling(rnd)})
    for _ in range(max(3, n // 30)):           # array calls (all real or all imaginary)
        ss = [spelling(rnd).rstrip("j") for _ in range(3)]
        if rnd.random() < 0.3:
            ss = [s + "j" for s in ss]
        out.append({"ev": "from_string", "ss": ss})
    return out


PRECS = [-1, -1, 0, 1, 2, 3, 5, 9, 12, 15, 17, 20, 25, 30]
TIES = [0.5, -0.5, 0.25, -0.25, 0.125, 0.375, -0.125, 0.0625, 0.05, 0.15, 0.35, 0.45, 0.005, 0.245, 0.2, 0.3, 0.0,
        0.004999999999999999, 0.95 - 1.0, 0.995 - 1.0, 0.1, 0.25 - 2.0 ** -55, 0.24999999999999997]


def text_phase(rnd):
    r = rnd.random()
    c = rnd.choice([0.0, 0.0, 1.0, -1.0, 3.0, 9.0, 99.0, -10.0, 12345678.0]) if r < 0.5 else count(rnd)
    r = rnd.random()
    if r < 0.45:
        f = rnd.choice(TIES)
        if rnd.random() < 0.4:                   # just beside a rounding tie
            f = f + rnd.choice([-1, 1]) * rnd.choice([2.0 ** -56, 2.0 ** -58, 1e-17, 2.0 ** -54])
    elif r < 0.85:
        f = rnd.uniform(-0.5, 0.5)
    else:
        f = fraction(rnd)
    f = min(0.5, max(-0.5, f))
    return {"i": [hx(c)], "f": [hx(f)], "im": rnd.random() < 0.12, "shape": None}


def gen_to_string(rnd, n):
    out = []
    three = {"i": [hx(3.0)], "f": [hx(0.2)], "im": False, "shape": None}
    for p in (-1, 0, 1, 2, 3):
        out.append({"ev": "to_string", "ph": three, "prec": p, "fmt": False})
    for _ in range(n):
        ph = text_phase(rnd)
        fmt = rnd.random() < 0.25
        if fmt:
            ph["im"] = False
        out.append({"ev": "to_string", "ph": ph, "prec": rnd.choice([p for p in PRECS if p >= 0] if fmt else PRECS),
                    "fmt": fmt})
    return out


def gen_roundtrip(rnd, n):
    return [{"ev": "roundtrip", "ph": text_phase(rnd), "prec": rnd.choice([-1, -1, -1, 3, 9, 17, 20])} for _ in range(n)]


def recipes(rnd, scale):
    rc = gen_cmp(rnd, 420 * scale)
    rc += gen_red_directed(rnd)
    rc += gen_red(rnd, 330 * scale)
    rc += gen_hist(rnd, 90 * scale)
    rc += gen_from_string(rnd, 700 * scale)
    rc += gen_to_string(rnd, 800 * scale)
    rc += gen_roundtrip(rnd, 300 * scale)
    return rc


NEGS = (("Neg_PhaseText_parse.cfg", "ParseAgrees"), ("Neg_PhaseText_format.cfg", "Rendered"))


def _tlc(module, cfg, **kw):
    """tlc.run; a run that ends without any verdict (JVM killed from outside on a
    shared machine) is repeated once before it is reported as a machinery error"""
    kw.setdefault("heap", "2g")
    r = tlc.run(module, cfg, **kw)
    if not r.ok and r.violation is None:
        r = tlc.run(module, cfg, **kw)
    return r


def model_checking(thorough):
    w = 8 if thorough else 6
    out = [("MC_PhaseText_" + ("full" if thorough else "quick"),
            _tlc("MC_PhaseText", "MC_PhaseText_full.cfg" if thorough else "MC_PhaseText_quick.cfg", workers=w,
                    timeout=3000), True, None)]
    for cfg, inv in NEGS:
        out.append(("neg:" + cfg, _tlc("MC_PhaseText", cfg, workers=2, timeout=600), False, inv))
    return out


def file_mc(chk, results):
    for name, r, must, inv in results:
        if must:
            chk.mc_must_hold(name, r)
            chk.exhaustive = r.ok
        else:
            chk.add_tlc(name, r)
            if r.violation != inv:
                chk.machinery_errors.append("%s: TLC should reject the pinned transcription with %s, got %r"
                                            % (name, inv, r.violation))
    chk.notes["negative_configs_rejected"] = ["%s (%s)" % n for n in NEGS]


def run(chk):
    import concurrent.futures as cf
    rnd = random.Random(chk.seed)
    thorough = chk.tier == "thorough"
    with cf.ThreadPoolExecutor(max_workers=1) as ex:
        # 1. model checking of the specification (beside the trace validation)
        mc = ex.submit(model_checking, thorough)
        # 2. trace validation of the real class
        rcs = recipes(rnd, 16 if thorough else 1)
        events, rejected = pd.validate(chk, rcs, "C15", procs=7)
        file_mc(chk, mc.result())
    seen = set()
    for ev in events:
        if ev["ev"] not in seen:
            seen.add(ev["ev"])
            chk.sample({"ev": ev["ev"], "desc": pd.describe(ev, [])})
    chk.notes["recipes"] = len(rcs)
    chk.assumptions += ["TLC explores the text models exhaustively only for the stated small grammar / lattice instance",
                        "events are recorded outside the class (harness/phase_drv.py); exact.rat of float64 is exact",
                        "text is compared as UTF-8 byte values parsed by spec/PhaseText.tla, not by Python"]


def replay(doc):
    return pd.replay_case(doc)
