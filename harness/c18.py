"""C18 - fast FFT lengths are the nearest 7-smooth numbers for every N.

spec/FastLen.tla     both nested 7-5-3-2 search loops transcribed step by step; TLC explores every
                     N of the exhaustive range as an initial state: Terminates, ResultIsNext,
                     ResultIsPrev; the same run prints (fn, N, result) of every behaviour (Gen_FastLen)
spec/Smooth.tla      the lattice of all 7-smooth numbers < 2^62 as the reachable set of a state machine
                     on BigInt (75 711 states), printed by Gen_Smooth
spec/FastLenSig.tla  fast_len on signals (ledger of retained samples / stamped times)
spec/Trace_FastLen   validates recorded calls of the real functions for arbitrary N < 2^62
"""
import bisect
import json
import multiprocessing as mp
import os
import random
import threading
import time

import exact
import framework
import tlc

PID = "C18"
SCR = os.path.join(framework.ROOT, ".scratch")
NEGS = [("Neg_FastLen_guess.cfg", "next_fast_len with guess N instead of 2N"),
        ("Neg_FastLen_oddbreak.cfg", "inner loops without the `x & 1` break"),
        ("Neg_FastLen_prevlt.cfg", "prev_fast_len with `<` instead of `<=`")]


# ---------------------------------------------------------------- workers (forked before any thread starts)

def _clear(f):
    """drop a memo if the function has one (lru_cache is an implementation detail, not required)"""
    cc = getattr(f, "cache_clear", None)
    if cc is not None:
        cc()

def _fns():
    from pulsarbat.utils import next_fast_len, prev_fast_len
    return next_fast_len, prev_fast_len


ARGTYPES = ("int", "int64", "uint64", "int32")


def as_type(N, t):
    """the integer N as an argument of type t (None if t cannot hold it)"""
    import numpy as np
    if t == "int":
        return int(N)
    info = np.iinfo(t)
    # the search starts from 2 N: fixed-width types are used where 2 N still fits (beyond that NumPy's own wrap-around
    # arithmetic, not the search, decides the outcome; lengths reach the functions as Python ints)
    return getattr(np, t)(N) if info.min <= N and 2 * N <= info.max else None


def judge_result(got, exp):
    """is `got` the integer exp?  (any integer type; bool / float / anything else is not an integer result)"""
    import numbers
    return isinstance(got, numbers.Integral) and not isinstance(got, bool) and int(got) == exp


def _pairs_worker(arg):
    """arg = (pairs [(s, s2)], clear): the four neighbour calls of the real code for every adjacent pair."""
    pairs, clear = arg
    nx, pv = _fns()
    if clear:
        _clear(nx)
        _clear(pv)
    bad, n = [], 0
    for s, s2 in pairs:
        calls = [("next", s, s, "lattice:next-at-smooth"), ("prev", s, s, "lattice:prev-at-smooth")]
        if s + 1 < s2:
            calls.append(("next", s + 1, s2, "lattice:next-after-smooth"))
            calls.append(("prev", s2 - 1, s, "lattice:prev-before-smooth"))
        for ci, (fn, N, exp, key) in enumerate(calls):
            # argument type: every integer type that can hold N, in turn over the lattice
            t = ARGTYPES[(s + ci) % len(ARGTYPES)]
            arg = as_type(N, t)
            if arg is None:
                t, arg = "int", int(N)
            n += 1
            try:
                import warnings
                with warnings.catch_warnings():
                    warnings.simplefilter("ignore")
                    got = (nx if fn == "next" else pv)(arg)
            except Exception as e:  # noqa
                got = "raised %r" % (e,)
            if not judge_result(got, exp):
                bad.append((key if t == "int" else key + ":" + t, fn, N, exp, "%r" % (got,), t))
    return bad, n


def _calls_worker(ns):
    import numbers
    import warnings
    nx, pv = _fns()
    out = []
    for i, N in enumerate(ns):
        t = ARGTYPES[(N + i) % len(ARGTYPES)]
        arg = as_type(N, t)
        if arg is None:
            t, arg = "int", int(N)
        try:
            with warnings.catch_warnings():
                warnings.simplefilter("ignore")
                a, b = nx(arg), pv(arg)
            if not all(isinstance(v, numbers.Integral) and not isinstance(v, bool) for v in (a, b)):
                out.append((N, 0, 0, "results %r, %r for %s(%d) are not integers" % (a, b, t, N)))
            else:
                out.append((N, int(a), int(b), None))
        except Exception as e:  # noqa
            out.append((N, 0, 0, "%s argument: %r" % (t, e)))
    return out


def _session_worker(arg):
    """Call-order sessions in one process: queries of equal VALUE but different type (float-valued, NumPy integer,
    Python int) in every order, both functions interleaved.  Float-valued queries are outside the property and are
    not judged themselves; every integer query must return the integer the specification names, whatever was
    asked before.  arg = [(v, next(v), prev(v))]  ->  [(key, description, case)]"""
    import itertools
    import warnings
    import numpy as np
    nx, pv = _fns()
    bad = []
    kinds = {"float": float, "int": int, "int64": np.int64, "float32": np.float32}
    orders = [p for p in itertools.permutations(("float", "int", "int64"), 3)] + [("float32", "int"), ("int", "float", "int")]
    for j, (v, en, ep) in enumerate(arg):
        order = orders[j % len(orders)]
        fns = (("next", nx, en), ("prev", pv, ep)) if j % 2 else (("prev", pv, ep), ("next", nx, en))
        for k in order:
            if k == "float32" and float(np.float32(v)) != v:
                continue
            for name, f, exp in fns:
                try:
                    with warnings.catch_warnings():
                        warnings.simplefilter("ignore")
                        got = f(kinds[k](v))
                except Exception as e:  # noqa
                    got = e
                # Python-int queries (what len() hands over) must return an integer; a NumPy-integer query is judged
                # by value only: its memo entry is shared with an equal float (hash and == agree), which the property
                # does not speak about
                ok = judge_result(got, exp) if k == "int" else (k != "int64" or (not isinstance(got, Exception) and got == exp))
                if not ok:
                    bad.append(("session:%s-after-%s" % (k, "+".join(order[:order.index(k)]) or "nothing"),
                                "%s_fast_len(%s(%d)) = %r after the queries %r of the same value; specification says %d"
                                % (name, k, v, got, order, exp), {"kind": "session", "v": v, "next": en, "prev": ep, "j": j}))
        if v <= 5000:
            # a signal of that length, after those queries
            try:
                from common import pb, u
                z = pb.Signal(np.arange(v, dtype=float), sample_rate=1 * u.Hz)
                y = pb.fast_len(z)
                if len(y) != ep or not np.array_equal(np.asarray(y.data), np.arange(ep, dtype=float)):
                    bad.append(("session:fast_len", "fast_len of a %d-sample signal after the queries %r of that value has %d samples, "
                                "specification says %d" % (v, order, len(y), ep), {"kind": "session", "v": v, "next": en, "prev": ep, "j": j}))
            except Exception as e:  # noqa
                bad.append(("session:fast_len-raised", "fast_len of a %d-sample signal after the queries %r of that value raised %r"
                            % (v, order, e), {"kind": "session", "v": v, "next": en, "prev": ep, "j": j}))
    return bad


def run_sessions(chk, lattice, spool, rnd):
    """spool: a one-process pool forked at the start and used for nothing else (its memo is untouched)"""
    small = [s for s in lattice if 11 <= s <= 5000]
    vals = rnd.sample(small, 40) + [s + 1 for s in rnd.sample(small, 10)] + rnd.sample(lattice, 30 if chk.tier == "quick" else 300) \
        + [4096, 2 ** 30, 2 ** 52, 3 ** 33]
    vals = [v for v in dict.fromkeys(vals) if v < 2 ** 53]        # float(v) must be v itself
    arg = []
    for v in vals:
        i = bisect.bisect_right(lattice, v) - 1
        arg.append((v, v if lattice[i] == v else lattice[i + 1], lattice[i]))
    try:
        bad = spool.apply_async(_session_worker, (arg,)).get(timeout=600)
    except mp.TimeoutError:
        chk.violation("termination", "call-order session did not return within 600 s", {"kind": "smoke", "ns": vals[:10]})
        return
    for key, desc, case in bad:
        chk.violation(key, desc, case)
    chk.validated += len(arg)
    chk.notes["call_order_sessions"] = len(arg)


# ---------------------------------------------------------------- helpers
def _load(path):
    out = []
    with open(path) as f:
        for line in f:
            line = line.strip()
            if line:
                c = json.loads(line)
                out.append(json.loads(c) if isinstance(c, str) else c)
    return out


def _tlc_gen(chk, name, module, cfg, res, **kw):
    os.makedirs(SCR, exist_ok=True)
    out = os.path.join(SCR, "%s_%s_%d.ndjson" % (PID, name, os.getpid()))
    if os.path.exists(out):
        os.remove(out)
    try:
        r = tlc.run(module, cfg, env={"GEN_OUT": out}, **kw)
        res[name] = (r, out)
    except Exception as e:  # noqa
        res[name] = (e, out)


def _call_violation(chk, key, fn, N, exp, got, how, t="int"):
    chk.violation(key, "%s_fast_len(%s(%d)) = %s, specification says %d (%s)" % (fn, t, N, got, exp, how),
                  {"kind": "call", "fn": fn, "N": N, "expected": exp, "argtype": t})


# ---------------------------------------------------------------- (a) exhaustive range
def replay_exhaustive(chk, recs, rnd):
    nx, pv = _fns()
    f = {"next": nx, "prev": pv}
    exp = {"next": {}, "prev": {}}
    for r in recs:
        exp[r["fn"]][r["N"]] = r["res"]
    ns = sorted(exp["next"])
    assert ns == sorted(exp["prev"]) and ns == list(range(ns[0], ns[-1] + 1)), "generated range incomplete"
    orders = [("ascending, cold cache", ns, True), ("descending, warm cache", ns[::-1], False)]
    sh = list(ns)
    rnd.shuffle(sh)
    orders.append(("shuffled, cold cache", sh, True))
    orders.append(("ascending, uncached (__wrapped__)", ns, None))
    n = 0
    for how, order, clear in orders:
        for fn in ("next", "prev"):
            g = f[fn]
            if clear:
                _clear(g)
            if clear is None:
                g = getattr(g, "__wrapped__", g)
            e = exp[fn]
            typed = how.startswith("descending")          # this pass hands the argument over in every integer type
            for N in order:
                t = ARGTYPES[N % len(ARGTYPES)] if typed else "int"
                got = g(as_type(N, t))
                n += 1
                if not judge_result(got, e[N]):
                    _call_violation(chk, "exhaustive:" + fn + ("" if t == "int" else ":" + t), fn, N, e[N], repr(got), how, t)
    chk.validated += n
    chk.notes["exhaustive_range"] = [ns[0], ns[-1]]
    chk.notes["exhaustive_calls"] = n
    chk.notes["max_loop_steps"] = max(r["steps"] for r in recs)
    for N in (0, 11, ns[-1] // 2 + 1):
        chk.sample({"N": N, "next": exp["next"][N], "prev": exp["prev"][N], "source": "Gen_FastLen"})


# ---------------------------------------------------------------- (b) lattice neighbours
def replay_lattice(chk, lattice, pool, rnd, nproc):
    pairs = list(zip(lattice[:-1], lattice[1:]))
    thorough = chk.tier == "thorough"
    if thorough:
        chosen = pairs
    else:
        small = [p for p in pairs if p[1] <= 10 ** 7]
        big = [p for p in pairs if p[1] > 10 ** 7]
        chosen = small + rnd.sample(big, 5000 - len(small) if len(small) < 4000 else 1000)
    chunks = [chosen[i::nproc * 4] for i in range(nproc * 4)]
    jobs = [(c, True) for c in chunks if c]
    # second order: the same pairs reversed (quick: a tenth of them), cache kept from whatever ran before
    second = chosen if thorough else rnd.sample(chosen, len(chosen) // 10)
    jobs += [(c[::-1], False) for c in [second[i::nproc * 2] for i in range(nproc * 2)] if c]
    ncalls = 0
    for bad, n in timed(pool.imap_unordered(_pairs_worker, jobs), len(jobs), 2400 if chk.tier == "thorough" else 900, "neighbours of 7-smooth numbers"):
        ncalls += n
        for key, fn, N, e, got, t in bad:
            _call_violation(chk, key, fn, N, e, got, "neighbour of a 7-smooth number", t)
    chk.validated += ncalls
    chk.notes["lattice_size"] = len(lattice)
    chk.notes["lattice_pairs_replayed"] = len(chosen)
    chk.notes["lattice_calls"] = ncalls
    s, s2 = chosen[-1]
    chk.sample({"smooth": s, "next_smooth": s2, "calls": ["next(s)=s", "prev(s)=s", "next(s+1)=s'", "prev(s'-1)=s"]})


# ---------------------------------------------------------------- trace
def trace_inputs(lattice, rnd, n):
    top = lattice[-1]
    out = [0, 1, 10, 11, top, top - 1, 2 ** 61, 2 ** 61 + 1, 2 ** 61 - 1]
    while len(out) < n:
        k = rnd.random()
        if k < 0.3:
            N = int(2 ** rnd.uniform(3, 62))
        elif k < 0.5:
            N = rnd.randrange(10 ** 6, 4 * 10 ** 9)            # real block lengths
        elif k < 0.8:
            s = rnd.choice(lattice)
            N = s + rnd.choice((-2, -1, 0, 1, 2, 3, 7))
        else:
            N = rnd.randrange(0, top)
        if 0 <= N <= top:
            out.append(N)
    return out[:n]


class Hang(Exception):
    pass


def timed(it, count, secs, what):
    """results of a pool iterator; a worker that does not come back within `secs` is a non-terminating search"""
    for _ in range(count):
        try:
            yield it.next(timeout=secs)
        except mp.TimeoutError:
            raise Hang(what)


def run_trace(chk, lattice, pool, rnd, nproc, lattice_file):
    import trace_util
    n = 20000 if chk.tier == "thorough" else 1500
    ns = trace_inputs(lattice, rnd, n)
    res = []
    for part in timed(pool.imap(_calls_worker, [ns[i::nproc] for i in range(nproc)]), nproc, 2400 if chk.tier == "thorough" else 900, "sampled N of the trace"):
        res += part
    events = []
    for i, (N, a, b, err) in enumerate(res):
        if err:
            chk.violation("trace:raised", "fast length of %d raised %s" % (N, err), {"kind": "trace", "N": N})
            continue
        events.append({"id": i, "ev": "fastlen", "N": exact.big(N), "next": exact.big(a), "prev": exact.big(b)})
    rejected, done = trace_util.validate("Trace_FastLen", events, batch=5000, timeout=900,
                                         env={"LATTICE_FILE": lattice_file}, chk=chk)
    chk.validated += done
    chk.notes["trace_events"] = done
    for e, failed in rejected:
        N = exact.unbig(e["N"])
        i = bisect.bisect_right(lattice, N) - 1
        lo = lattice[i] if N > 0 else 0
        hi = lo if lo == N else lattice[i + 1]
        chk.violation("trace:" + "+".join(sorted(failed)),
                      "N=%d: next_fast_len=%d prev_fast_len=%d rejected by Trace_FastLen (%s); lattice neighbours %d, %d"
                      % (N, exact.unbig(e["next"]), exact.unbig(e["prev"]), ",".join(sorted(failed)), lo, hi),
                      {"kind": "trace", "N": N, "lo": lo, "hi": hi})
    if events:
        e = events[len(events) // 2]
        chk.sample({"trace_event": {k: exact.unbig(e[k]) for k in ("N", "next", "prev")}})


# ---------------------------------------------------------------- (c) fast_len on signals
SIG_CLASSES = ["Signal", "BasebandSignal", "IntensitySignal", "DualPolarizationSignal", "FullStokesSignal", "RadioSignal"]
_TOUCH = [0]


def _touch(b):
    _TOUCH[0] += 1
    return b


def replay_sig_case(case, conc, cls):
    """-> list of (key, description)"""
    import numpy as np
    import common
    from common import pb, py
    from fractions import Fraction
    out = []
    root = {"cls": cls, "len": case["root"]["len"], "nchan": 0 if cls == "Signal" else 2, "hasT": case["root"]["hasT"],
            "align": "center"}
    try:
        sig = common.build_root(root, conc)
    except Exception:
        return None          # this class cannot hold such data (machinery, not the property)
    cur = case["cur"]
    desc = "%s len=%d %s [%s]" % (cls, root["len"], " -> ".join("%s%r" % (o["op"], [py(x) for x in o["args"]])
                                                                  for o in case["hist"]), conc.name)
    pre = rootsig = sig
    for o in case["hist"]:
        pre = sig
        try:
            if o["op"] == "slice":
                a, b, c = (py(x) for x in o["args"])
                sig = sig[a:b:c]
            else:
                before = common.snapshot(sig)
                _TOUCH[0] = 0
                sig = pb.fast_len(sig)
        except Exception as e:  # noqa
            return [("fast_len:raised", "%s raised %r | %s" % (o["op"], e, desc))]
    if len(sig) != cur["len"]:
        out.append(("fast_len:length", "length %d, specification says %d (input length %d) | %s"
                    % (len(sig), cur["len"], len(pre), desc)))
        return out
    n = cur["len"]
    d, dp = common.materialise(sig), common.materialise(pre)
    if d.shape[1:] != dp.shape[1:] or d.dtype != dp.dtype or not np.array_equal(d, dp[:n]):
        out.append(("fast_len:samples", "retained samples are not the first %d samples of the input | %s" % (n, desc)))
    if n > 0:
        dr = common.materialise(rootsig)
        src = cur["k0"] + np.arange(n) * cur["stride"]
        if src[-1] >= len(dr) or not np.array_equal(d, dr[src]):
            out.append(("fast_len:sample-origin", "retained samples are not the root samples %s.. the specification names | %s"
                        % (src[:3].tolist(), desc)))
    if common.hz(sig.sample_rate) != common.hz(pre.sample_rate):
        out.append(("fast_len:rate", "sample_rate changed %r -> %r | %s" % (pre.sample_rate, sig.sample_rate, desc)))
    exp_rate = conc.rate_hz / cur["per"]
    if abs(common.hz(sig.sample_rate) - exp_rate) > 8 * Fraction(1, 2 ** 52) * exp_rate:
        out.append(("fast_len:rate", "sample_rate %r, specification says %s Hz | %s" % (sig.sample_rate, float(exp_rate), desc)))
    if (sig.start_time is not None) != cur["hasT"]:
        out.append(("fast_len:start-none", "start_time is %r, specification says hasT=%s | %s" % (sig.start_time, cur["hasT"], desc)))
    elif cur["hasT"]:
        tol = Fraction(3, 2 ** 52)          # <= 2 Time operations of 2^-52 day each (+ root)
        if abs(common.time_days(sig.start_time) - common.time_days(pre.start_time)) > tol:
            out.append(("fast_len:start", "start_time moved by %.3g s | %s"
                        % (float((common.time_days(sig.start_time) - common.time_days(pre.start_time)) * 86400), desc)))
        exp_days = common.time_days(conc.epoch) + Fraction(cur["t0"]) / conc.rate_hz / 86400
        tol2 = Fraction(4, 2 ** 52) + abs(exp_days - common.time_days(conc.epoch)) * Fraction(8, 2 ** 52)
        if abs(common.time_days(sig.start_time) - exp_days) > tol2:
            out.append(("fast_len:start", "start_time off by %.6g samples | %s"
                        % (float((common.time_days(sig.start_time) - exp_days) * 86400 * conc.rate_hz), desc)))
    return out


def replay_signals(chk, cases, rnd):
    import common
    concs = common.concs(8 if chk.tier == "thorough" else 4, random.Random(chk.seed + 18))
    limit = 40000 if chk.tier == "thorough" else 2500
    if len(cases) > limit:
        # every root length without pre-slice is kept; the rest is sampled
        keep = [c for c in cases if len(c["hist"]) == 1]
        rest = [c for c in cases if len(c["hist"]) != 1]
        cases = keep + rnd.sample(rest, max(0, limit - len(keep)))
    n = 0
    for i, case in enumerate(cases):
        conc = concs[i % len(concs)]
        cls = SIG_CLASSES[i % len(SIG_CLASSES)] if len(case["hist"]) > 1 else SIG_CLASSES[(i // 2) % len(SIG_CLASSES)]
        res = replay_sig_case(case, conc, cls)
        if res is None:
            continue
        n += 1
        for key, desc in res:
            chk.violation(key, desc, {"kind": "sig", "case": case, "cls": cls, "conc_index": concs.index(conc),
                                      "nconc": len(concs), "seed": chk.seed})
        if i in (5, 77):
            chk.sample({"signal": cls, "root_len": case["root"]["len"], "hist": case["hist"], "expected": case["cur"]})
    chk.validated += n
    chk.notes["signal_cases"] = n
    chk.notes["concretisations"] = [c.name for c in concs]


def big_dask_case(N, exp, kind):
    """fast_len on a lazily defined signal of N samples; -> list of (key, desc)"""
    import numpy as np
    import common
    from common import pb, u, Time, da
    out = []
    base = da.arange(N, chunks=2 ** 22, dtype="f8").map_blocks(_touch, dtype="f8")
    t0 = Time("2021-03-04T05:06:07.123456789", format="isot", precision=9)
    if kind == "Signal":
        z = pb.Signal(base, sample_rate=1 * u.MHz, start_time=t0)
    else:
        z = pb.BasebandSignal((base * (1 + 0j))[:, None], sample_rate=1 * u.MHz, start_time=t0, center_freq=1 * u.GHz)
    _TOUCH[0] = 0
    try:
        y = pb.fast_len(z)
    except Exception as e:  # noqa
        return [("fast_len:raised", "fast_len on %s of %d lazy samples raised %r" % (kind, N, e))]
    desc = "%s of %d lazy samples" % (kind, N)
    if _TOUCH[0] or not isinstance(y.data, da.Array):
        return [("machinery:not-lazy", "fast_len computed %d blocks / returned %s (laziness is property C09; the values of a "
                 "%d-sample signal cannot be examined eagerly) | %s" % (_TOUCH[0], type(y.data).__name__, N, desc))]
    try:
        ylen = len(y)
        y.shape, y.stop_time
    except Exception as e:  # noqa   (a result whose length cannot even be asked is malformed, not a harness crash)
        return [("fast_len:malformed", "len()/shape of the lazy result raised %r | %s" % (e, desc))]
    if ylen != exp:
        out.append(("fast_len:length", "length %d, largest 7-smooth number <= %d is %d | %s" % (ylen, N, exp, desc)))
        return out
    if exp:
        idx = sorted({0, exp // 3, exp - 1})
        try:
            got = [complex(np.asarray(y.data[i].compute(scheduler="synchronous")).ravel()[0]).real for i in idx]
        except Exception as e:  # noqa   (announced length and real content disagree)
            return out + [("fast_len:malformed", "samples %s of the lazy result cannot be computed: %r | %s" % (idx, e, desc))]
        if got != [float(i) for i in idx]:
            out.append(("fast_len:samples", "samples at %s are %s | %s" % (idx, got, desc)))
    if abs(common.time_days(y.start_time) - common.time_days(z.start_time)) > 0 or common.hz(y.sample_rate) != common.hz(z.sample_rate):
        out.append(("fast_len:start", "start_time / sample_rate changed | " + desc))
    return out


def replay_big_dask(chk, lattice, rnd):
    lo, hi = bisect.bisect_left(lattice, 10 ** 5), bisect.bisect_left(lattice, 3 * 10 ** 9)
    k = 40 if chk.tier == "thorough" else 12
    n = 0
    for j in range(k):
        i = rnd.randrange(lo, hi)
        s, s2 = lattice[i], lattice[i + 1]
        N = [s, s2 - 1, s + 1, rnd.randrange(s, s2)][j % 4]
        kind = "Signal" if j % 3 else "BasebandSignal"
        for key, desc in big_dask_case(N, s, kind):
            if key.startswith("machinery"):
                chk.notes.setdefault("lazy_big_lengths_not_examined", []).append(desc)
                continue
            chk.violation(key, desc, {"kind": "dask", "N": N, "expected": s, "cls": kind})
        n += 1
        if j == 1:
            chk.sample({"lazy_signal_len": N, "fast_len": s})
    chk.validated += n
    chk.notes["lazy_big_lengths"] = n


# ---------------------------------------------------------------- main
def run(chk):
    rnd = random.Random(chk.seed)
    thorough = chk.tier == "thorough"
    nproc = min(12, os.cpu_count() or 4)
    pool = mp.get_context("fork").Pool(nproc)       # before any thread / dask pool exists
    spool = mp.get_context("fork").Pool(1)
    try:
        # watchdog: the loops must come back at all (a non-terminating search would hang every later replay)
        smoke = [11, 12, 13, 97, 1000, 1001, 65537, 10 ** 6 + 3, 2 ** 40 + 1, 3 ** 30 + 1]
        try:
            pool.apply_async(_calls_worker, (smoke,)).get(timeout=60)
        except mp.TimeoutError:
            chk.violation("termination", "next_fast_len / prev_fast_len did not return within 60 s on %r" % (smoke,),
                          {"kind": "smoke", "ns": smoke})
            return
        res = {}
        tier = "full" if thorough else "quick"
        th = [threading.Thread(target=_tlc_gen, args=(chk, "loops", "Gen_FastLen", "Gen_FastLen_%s.cfg" % tier, res),
                               kwargs=dict(workers=16 if thorough else 12, timeout=3000 if thorough else 1500, heap="12g" if thorough else "8g",
                                           extra=("-fpmem", "0.5") if thorough else ())),
              threading.Thread(target=_tlc_gen, args=(chk, "lattice", "Gen_Smooth", "Gen_Smooth.cfg", res),
                               kwargs=dict(workers=4, timeout=600, heap="2g")),
              threading.Thread(target=_tlc_gen, args=(chk, "sig", "Gen_FastLenSig", "Gen_FastLenSig_%s.cfg" % tier, res),
                               kwargs=dict(workers=2, timeout=600, heap="2g"))]
        for t in th:
            t.start()
        # the wrong variants must be rejected (the invariants are not vacuous)
        negs = {}
        for cfg, what in NEGS:
            r = tlc.run("MC_FastLen", cfg, workers=2, timeout=900, heap="2g")
            chk.add_tlc("neg:" + cfg, r)
            negs[cfg] = r.violation
            if r.ok or r.violation is None:
                chk.machinery_errors.append("wrong variant (%s) was not rejected by TLC (%s)" % (what, cfg))
        chk.notes["negative_models_rejected"] = negs
        th[1].join()
        th[2].join()
        files = {}
        for name in ("lattice", "sig"):
            r, out = res[name]
            if isinstance(r, Exception):
                raise r
            chk.mc_must_hold("gen:" + name, r)
            files[name] = out
        if chk.machinery_errors:
            return
        lattice = sorted(exact.unbig(c["v"]) for c in _load(files["lattice"]))
        os.remove(files["lattice"])
        assert all(a < b for a, b in zip(lattice, lattice[1:])) and lattice[0] == 1 and lattice[-1] < 2 ** 62
        lat_file = os.path.join(SCR, "%s_lattice_%d.json" % (PID, os.getpid()))
        with open(lat_file, "w") as f:
            json.dump([exact.big(v) for v in lattice], f)
        t0 = time.time()
        replay_lattice(chk, lattice, pool, rnd, nproc)
        chk.notes["lattice_replay_s"] = round(time.time() - t0, 1)
        run_trace(chk, lattice, pool, rnd, nproc, lat_file)
        os.remove(lat_file)
        sig_cases = _load(files["sig"])
        os.remove(files["sig"])
        replay_signals(chk, sig_cases, rnd)
        replay_big_dask(chk, lattice, rnd)
        run_sessions(chk, lattice, spool, rnd)
        th[0].join()
        r, out = res["loops"]
        if isinstance(r, Exception):
            raise r
        chk.mc_must_hold("mc+gen:loops", r)
        chk.exhaustive = bool(r.ok)
        if r.ok:
            recs = _load(out)
            replay_exhaustive(chk, recs, rnd)
        if os.path.exists(out):
            os.remove(out)
    except Hang as h:
        chk.violation("termination", "next_fast_len / prev_fast_len did not return within the watchdog time (900 s quick / 2400 s thorough) on %s" % h,
                      {"kind": "hang", "what": str(h)})
    finally:
        pool.terminate()
        spool.terminate()
    chk.assumptions += [
        "TLC explores the transcribed loops for every N of the exhaustive range only; beyond it the input/output "
        "relation is checked at and next to every 7-smooth number below 2^62 (where a wrong result must change) "
        "and on sampled N, not the loops themselves",
        "the transcription spec/FastLen.tla follows pulsarbat/utils.py statement by statement (reviewed by hand; "
        "tied to the code by replaying every (N, result) it produces)",
        "Python's sort orders the TLC-generated lattice (TLC re-checks the order before bisecting)"]


def replay(doc):
    c = doc["case"]
    kind = c["kind"]
    if kind == "call":
        nx, pv = _fns()
        g = nx if c["fn"] == "next" else pv
        _clear(g)
        t = c.get("argtype", "int")
        got = g(as_type(c["N"], t))
        print("%s_fast_len(%s(%d)) = %r, expected %d" % (c["fn"], t, c["N"], got, c["expected"]))
        return 0 if judge_result(got, c["expected"]) else 1
    if kind == "session":
        bad = _session_worker([(0, 0, 0)] * c["j"] + [(c["v"], c["next"], c["prev"])])
        for key, desc, _ in bad:
            print("VIOLATION property=C18 replay=(this case)  # %s: %s" % (key, desc))
        if not bad:
            print("case passes")
        return 1 if bad else 0
    if kind == "smoke":
        pool = mp.get_context("fork").Pool(1)
        try:
            pool.apply_async(_calls_worker, (c["ns"],)).get(timeout=60)
            print("all calls returned")
            return 0
        except mp.TimeoutError:
            print("VIOLATION property=C18 replay=(this case)  # termination: no result within 60 s")
            return 1
        finally:
            pool.terminate()
    if kind == "trace":
        nx, pv = _fns()
        a, b = nx(c["N"]), pv(c["N"])
        print("N=%d next=%d prev=%d; lattice neighbours %s, %s" % (c["N"], a, b, c.get("lo"), c.get("hi")))
        return 0 if (a, b) == (c.get("hi"), c.get("lo")) else 1
    if kind == "dask":
        res = big_dask_case(c["N"], c["expected"], c["cls"])
    else:
        import common
        concs = common.concs(c["nconc"], random.Random(c["seed"] + 18))
        res = replay_sig_case(c["case"], concs[c["conc_index"]], c["cls"]) or []
    res = [r for r in res if r[0] == doc["key"]] or res
    for key, desc in res:
        print("VIOLATION property=C18 replay=(this case)  # %s: %s" % (key, desc))
    if not res:
        print("case passes")
    return 1 if res else 0
