"""C19 - real_to_complex is the exact analytic-baseband conversion along any axis.

spec/R2C.tla (operational definition + declarative clauses), MC_R2C / Gen_R2C (one TLC
run: model checking of the clauses and generation of every input with its expected
output), Neg_R2C_weight (wrong h[N//2] weight, must be rejected), Trace_R2C (lanes of
real calls, incl. the real-sampled reader path, decided by TLC's own R2C).
"""
import concurrent.futures as cf
import json
import os
import random
import shutil
import tempfile
from fractions import Fraction

import tlc
import framework

PID = "C19"
SCR = os.path.join(framework.ROOT, ".scratch")

REAL_DTYPES = ["bool", "int8", "int16", "int32", "int64", "uint8", "uint16", "uint32", "uint64",
               "float16", "float32", "float64", "longdouble"]
COMPLEX_DTYPES = ["complex64", "complex128", "clongdouble"]
SINGLE = ("float16", "float32")      # scipy.fft transforms half precision in single precision


def _gen(cfg, workers, timeout):
    os.makedirs(SCR, exist_ok=True)
    out = os.path.join(SCR, "C19_gen_%d.ndjson" % os.getpid())
    if os.path.exists(out):
        os.remove(out)
    import reader_lib as rl
    r = rl.tlc_run("Gen_R2C", cfg, env={"GEN_OUT": out}, timeout=timeout, workers=workers)
    recs = []
    if os.path.exists(out):
        with open(out) as f:
            for line in f:
                line = line.strip()
                if line:
                    v = json.loads(line)
                    recs.append(json.loads(v) if isinstance(v, str) else v)
        os.remove(out)
    return r, recs


# ------------------------------------------------------------------ Gen -> code
def _unfix(d):
    import exact
    return exact.unfix(d)


def _cfloat(d):
    return complex(float(_unfix(d["re"])), float(_unfix(d["im"])))


def representable(vals, dt):
    """are the exact input values (Fractions) representable in dtype dt?"""
    import numpy as np
    if dt == "bool":
        return all(v in (0, 1) for v in vals)
    if dt.startswith("uint"):
        return all(v.denominator == 1 and v >= 0 for v in vals)
    if dt.startswith("int"):
        return all(v.denominator == 1 for v in vals)
    if dt == "float16":
        return all(Fraction(float(np.float16(float(v)))) == v for v in vals)
    if dt == "float32":      # rounding the input moves the output by < 1e-7 * sum|x|: inside the single budget
        return True
    return True              # float64 / longdouble: Fix -> double rounding is 2^-53


def tol_for(dt, scale):
    return (1e-5 if dt in SINGLE else 1e-12) * max(1.0, scale)


def replay_record(np, r2c, rec, dt, axis_py):
    """-> None | (clause, text).  rec: shape, ax (1-based), flat (Fix), oshape, oflat."""
    vals = [_unfix(v) for v in rec["flat"]]
    x = np.array([float(v) for v in vals], dtype=np.float64).reshape(rec["shape"]).astype(dt)
    want = np.array([_cfloat(v) for v in rec["oflat"]], dtype=np.complex128).reshape(rec["oshape"])
    try:
        y = r2c(x, axis=axis_py)
    except Exception as e:  # noqa
        return ("raises", "%s: %s" % (type(e).__name__, str(e)[:150]))
    return compare(np, x, y, want, dt, rec["ax"] - 1)


def compare(np, x, y, want, dt, ax):
    if y.shape != want.shape:
        return ("length", "result shape %r, expected %r" % (y.shape, want.shape))
    exp_dt = "complex64" if dt == "float32" else "complex128"
    if str(y.dtype) != exp_dt:
        return ("dtype", "result dtype %s for %s input, expected %s" % (y.dtype, dt, exp_dt))
    if y.size == 0:
        return None
    scale = float(np.abs(x.astype(np.float64)).sum(axis=ax).max()) if x.size else 1.0
    err = float(np.abs(y.astype(np.complex128) - want).max())
    if not err <= tol_for(dt, scale):
        return ("values", "max |result - expected| = %.3g > %.3g" % (err, tol_for(dt, scale)))
    return None


def embed_cases(np, recs, rnd, per_n):
    """rank-1 records of equal N stacked as lanes of rank-2 / rank-3 arrays along every axis:
    -> list of (x float64 array, axis, expected complex128 array, exact values)"""
    byn = {}
    for r in recs:
        if r["kind"] in ("cube", "basis") and r["shape"][0] > 0:
            byn.setdefault(r["shape"][0], []).append(r)
    out = []
    for N, rs in sorted(byn.items()):
        for _ in range(per_n):
            for lanes_shape in ((3,), (2, 2), (1,), (2, 1)):
                nl = 1
                for d in lanes_shape:
                    nl *= d
                pick = [rnd.choice(rs) for _ in range(nl)]
                X = np.array([[float(_unfix(v)) for v in p["flat"]] for p in pick])            # (nl, N)
                Y = np.array([[_cfloat(v) for v in p["oflat"]] for p in pick])                 # (nl, M)
                X = X.reshape(lanes_shape + (N,))
                Y = Y.reshape(lanes_shape + (Y.shape[-1],))
                rank = len(lanes_shape) + 1
                for ax in range(rank):
                    out.append((np.moveaxis(X, -1, ax).copy() if rnd.random() < 0.5 else np.moveaxis(X, -1, ax), ax,
                                np.moveaxis(Y, -1, ax), all(float(v) >= 0 for v in X.ravel()),
                                all(v in (0.0, 1.0) for v in X.ravel())))
    return out


# ------------------------------------------------------------------ code -> Trace
def lane_events(np, exact, x, y, axis, digits, eid0, meta, cj=False, max_lanes=6):
    """one event per lane along `axis` of a real call"""
    xm = np.moveaxis(np.asarray(x), axis, -1)
    y = np.asarray(y)
    want_shape = list(np.shape(x))
    want_shape[axis] = (want_shape[axis] + 1) // 2
    if list(y.shape) != want_shape:
        # wrong result shape: one event with an empty result lane, which the specification rejects ("length")
        # unless the lane itself is empty; then say so through an impossible extra sample
        ev = {"id": eid0, "ev": "r2c", "digits": digits, "cj": bool(cj), "lane": 0,
              "x": [exact.fix(Fraction(float(v))) for v in xm.reshape(-1, xm.shape[-1])[0]] if xm.size else [],
              "y": [] if xm.shape[-1] > 0 else [exact.cfix(0j)], "got_shape": list(y.shape)}
        ev.update(meta)
        return [ev]
    ym = np.moveaxis(y, axis, -1)
    nl = 1
    for d in xm.shape[:-1]:
        nl *= d
    xm = xm.reshape(nl, xm.shape[-1])
    ym = ym.reshape(nl, ym.shape[-1])
    evs = []
    for i in range(min(xm.shape[0], max_lanes)):
        ev = {"id": eid0 + len(evs), "ev": "r2c", "digits": digits, "cj": bool(cj),
              "x": [exact.fix(Fraction(float(v))) for v in xm[i]],
              "y": [exact.cfix(complex(v)) for v in ym[i]]}
        ev.update(meta)
        ev["lane"] = i
        evs.append(ev)
    return evs


def random_events(np, exact, r2c, rnd, count, maxn, eid0):
    evs = []
    dts = [d for d in REAL_DTYPES]
    while len(evs) < count:
        dt = rnd.choice(dts)
        N = rnd.choice([0, 1, 2, 3, 4, 5, 7, 8, 9, 11, 12, 13, 15, 16] + list(range(0, maxn + 1)))
        if N > maxn:
            continue
        rank = rnd.choice([1, 2, 3])
        shape = [rnd.choice([1, 2, 3]) for _ in range(rank)]
        ax = rnd.randrange(rank)
        shape[ax] = N
        size = 1
        for d in shape:
            size *= d
        if dt == "bool":
            vals = [rnd.choice([0, 1]) for _ in range(size)]
        elif dt.startswith("uint"):
            vals = [rnd.randrange(0, 100) for _ in range(size)]
        elif dt.startswith("int"):
            vals = [rnd.randrange(-100, 100) for _ in range(size)]
        elif dt == "float16":
            vals = [rnd.randrange(-256, 257) / 64.0 for _ in range(size)]
        else:
            vals = [rnd.randrange(-2 ** 22, 2 ** 22) / 2.0 ** 20 for _ in range(size)]
        x = np.array(vals, dtype=np.float64).reshape(shape).astype(dt)
        axis = ax if rnd.random() < 0.7 else ax - rank          # negative axes too
        try:
            y = r2c(x, axis=axis)
        except Exception as e:  # noqa
            evs.append({"id": eid0 + len(evs), "ev": "dtype", "din": dt, "got": type(e).__name__ + ": " + str(e)[:100], "src": "random"})
            continue
        evs += lane_events(np, exact, x, y, ax, 5 if dt in SINGLE else 12, eid0 + len(evs),
                           {"dtype": dt, "shape": shape, "axis": axis, "vals": vals, "src": "random"})
        evs.append({"id": eid0 + len(evs), "ev": "dtype", "din": dt, "got": str(y.dtype), "src": "random"})
    return evs


def reader_events(np, exact, rl, fsets, rnd, per_set, maxn, eid0):
    """real-sampled VDIF: read(o, n) must be R2C(raw[2o : 2o+2n]) (conjugated for LSB), half the rate and length"""
    import astropy.units as u
    evs = []
    for fsx in fsets:
        r = fsx.reader
        with fsx.open() as fh:
            rawlen, rawrate = int(fh.shape[0]), fh.sample_rate.to_value(u.Hz)
        L = len(r)
        fb = fsx.spf // 2
        reqs = [(0, 1), (0, maxn), (fb - 2, min(maxn, 5)), (L - 3, 3), (L - 1, 1), (fb, 2), (fb - 1, 1)]
        reqs += [(rnd.randrange(0, L - maxn), rnd.randrange(1, maxn + 1)) for _ in range(per_set)]
        for o, n in reqs:
            try:
                # the requests are inside what the reader advertises; if the raw stream does not have the
                # samples, that is a finding ("reader" event with got = -1), not a failure of the harness
                raw = fsx.direct(2 * o, 2 * n)
                z = r.read(o, n)
                d = np.asarray(z.data)
            except Exception as e:  # noqa
                evs.append({"id": eid0 + len(evs), "ev": "reader", "fileset": fsx.key, "o": o, "n": n, "got": -1, "len": L,
                            "rawlen": rawlen, "rate": 0, "rawrate": int(round(rawrate)), "error": str(e)[:200]})
                continue
            evs.append({"id": eid0 + len(evs), "ev": "reader", "fileset": fsx.key, "o": o, "n": n, "got": int(len(z)), "len": L,
                        "rawlen": rawlen, "rate": int(round(z.sample_rate.to_value(u.Hz))), "rawrate": int(round(rawrate))})
            evs += lane_events(np, exact, raw, d, 0, 5, eid0 + len(evs),
                               {"fileset": fsx.key, "o": o, "n": n, "src": "reader", "how": "numpy"}, cj=fsx.lsb, max_lanes=3)
            # the same read through Dask with chunks that split the time axis (evenly, unevenly, single samples) and a
            # trailing axis: still the conversion of the WHOLE raw slice
            nd = d.ndim
            layouts = [(max(1, n // 2),) + (-1,) * (nd - 1),
                       (((n - n // 3, n // 3) if n >= 3 else 1),) + (-1,) * (nd - 1),
                       (1,) + (-1,) * (nd - 2) + (1,)]
            first = (o + n) % 3
            for ck in [layouts[first]] + ([layouts[(first + 1) % 3]] if n >= 2 else []):
                try:
                    dd = np.asarray(r.read(o, n, use_dask=True, chunks=ck).data.compute())
                except Exception as e:  # noqa
                    evs.append({"id": eid0 + len(evs), "ev": "reader", "fileset": fsx.key, "o": o, "n": n, "got": -1, "len": L,
                                "rawlen": rawlen, "rate": 0, "rawrate": int(round(rawrate)), "error": "dask chunks=%r: %s" % (ck, str(e)[:150])})
                    continue
                evs += lane_events(np, exact, raw, dd, 0, 5, eid0 + len(evs),
                                   {"fileset": fsx.key, "o": o, "n": n, "src": "reader", "how": "dask chunks=%r" % (ck,)}, cj=fsx.lsb, max_lanes=2)
    return evs


def _status(rl, f):
    try:
        return "ok", f()
    except Exception as e:  # noqa
        return rl.status_of(e), None


def _oracle(np, r2c, fsx, raw):
    """real_to_complex of the WHOLE raw slice (conjugated for a lower-sideband reader): the conversion is not
    local, so this is the only slice that gives read(o, n)"""
    z = r2c(raw, axis=0)
    return (z.conj() if fsx.lsb else z).astype(np.complex64)


def _close(np, got, want, amax, N):
    if got.shape != want.shape:
        return False
    if got.size == 0:
        return True
    budget = (64 * 2.0 ** -23 * max(1, int(np.ceil(np.log2(max(N, 2))))) + 4 * N * 2.0 ** -52) * max(1.0, amax)
    return bool(np.abs(got.astype(np.complex128) - want.astype(np.complex128)).max() <= budget)


def reader_length_events(np, exact, rl, r2c, fsets, eid0):
    """real-sampled streams with odd and even raw sample counts: length, time_length, stop_time, whole-stream read,
    last sample, refusals beyond"""
    import astropy.units as u
    evs = []
    for fsx in fsets:
        r = fsx.reader
        with fsx.open() as fh:
            rawlen, rawrate = int(fh.shape[0]), Fraction(float(fh.sample_rate.to_value(u.Hz)))
        want = rawlen // 2
        st_full, z = _status(rl, lambda: r.read(0, want))
        flags = {}
        if st_full == "ok":
            d = np.asarray(z.data)
            raw = fsx.direct(0, 2 * want)
            flags["whole_stream_equals_conversion_of_all_pairs"] = _close(np, d, _oracle(np, r2c, fsx, raw), float(np.abs(raw).max()), 2 * want)
        else:
            flags["whole_stream_equals_conversion_of_all_pairs"] = False
        st_last, zl = _status(rl, lambda: r.read(want - 1, 1))
        if st_last == "ok":
            raw = fsx.direct(2 * want - 2, 2)
            flags["last_sample_is_conversion_of_last_pair"] = _close(np, np.asarray(zl.data), _oracle(np, r2c, fsx, raw), float(np.abs(raw).max()), 2)
        evs.append({"id": eid0 + len(evs), "ev": "readerlen", "fileset": fsx.key, "rawlen": rawlen, "len": int(len(r)), "shape0": int(r.shape[0]),
                    "rate": exact.rat(rl.hz(r.sample_rate)), "rawrate": exact.rat(rawrate),
                    "tl": exact.rat(Fraction(float(r.time_length.to_value(u.s)))),
                    "stop": exact.rat(rl.seconds_between(r.stop_time, r.start_time)),
                    "full": st_full, "fulllen": int(len(z)) if st_full == "ok" else -1, "last": st_last,
                    "beyond1": _status(rl, lambda: r.read(want, 1))[0], "beyond2": _status(rl, lambda: r.read(0, want + 1))[0],
                    "flags": flags, "src": "reader"})
    return evs


def long_read_events(np, exact, rl, r2c, fsets, th, eid0):
    """single reads of n around every power of two up to 2**15 (and a few other sizes), NumPy and Dask, several
    offsets: each must be the conversion of the whole raw slice [2o, 2o + 2n) - whatever block size an
    implementation might convert in, some n exceeds it.  (-1)^m Re(out[m]) = raw[2(o+m)] at sampled m is decided
    by TLC; the comparison with the whole-slice conversion (by the function the rest of this check verifies) is a flag."""
    evs = []
    sizes = sorted(set([2 ** k + dlt for k in range(6, 16) for dlt in (-1, 0, 1)] + [5000, 10000, 2 * 8192 + 1, 3 * 4096 + 5]))
    i = 0
    for n in sizes:
        for rep in range(3 if th else 1):
            fsx = fsets[i % len(fsets)]
            r = fsx.reader
            L = fsx.outlen            # complete pairs of raw samples
            if n > L:
                continue
            o = [0, 1, 777, L - n, (L - n) // 2][(i + rep) % 5]
            o = min(max(o, 0), L - n)
            how = "dask" if i % 3 == 2 else "numpy"
            i += 1
            raw = fsx.direct(2 * o, 2 * n)
            try:
                if how == "dask":
                    ck = [None, (32, -1, -1), (-1, -1, 2), (1000, -1, 1), ((n - n // 3, n // 3), -1, -1), (max(1, n // 2), -1, -1), (4097, -1, -1)][(i // 3) % 7]
                    how = "dask chunks=%r" % (ck,)
                    zd = r.dask_read(o, n) if ck is None else r.read(o, n, use_dask=True, chunks=ck)
                    d = np.asarray(zd.data.compute())
                else:
                    d = np.asarray(r.read(o, n).data)
                st = "ok"
            except Exception as e:  # noqa
                st, d = rl.status_of(e), np.zeros((0, 1, 4), np.complex64)
            amax = float(np.abs(raw).max())
            M = d.shape[0]
            ms = sorted(set([0, 1, M - 1, M - 2, M // 2] + [(j * 7919 + n) % M for j in range(12)])) if M > 2 else list(range(M))
            sgn = lambda m: 1.0 if m % 2 == 0 else -1.0      # noqa
            evs.append({"id": eid0 + len(evs), "ev": "longreal", "N": 2 * n, "prec": "single", "dtype": "float32", "layout": "reader",
                        "outlen": int(M), "amax": exact.fix(Fraction(amax)), "ms": ms,
                        "xs": [exact.fix(Fraction(float(raw[2 * m, 0, 0]))) for m in ms],
                        "ys": [exact.fix(Fraction(float(d[m, 0, 0].real))) for m in ms],
                        "flags": {"read_ok": st == "ok", "equals_conversion_of_whole_slice": st == "ok" and _close(np, d, _oracle(np, r2c, fsx, raw), amax, 2 * n),
                                  "dtype": str(d.dtype) == "complex64"},
                        "src": "reader-long", "fileset": fsx.key, "o": o, "n": n, "how": how})
    return evs


def long_axis_events(np, exact, r2c, rnd, th, eid0):
    """Long conversions (N ~ 1e4 .. 1e5) of every precision class.  'longreal': random data,
    (-1)^m Re(out[m]) = x[2m] at sampled m (decided by TLC, no transform needed) and for all m (flag);
    'longtone': a tone at integer w must come out at w - N/4."""
    evs = []
    Ns = [4096, 10007, 16384, 65536, 100000] if th else [10007, 16384, 65536]
    dts = ["float32", "float16", "float64", "int16", "longdouble", "uint8"] if th else ["float32", "float16", "float64", "int16"]
    layouts = [("rank1", lambda v: v, 0), ("cols", lambda v: np.stack([v, v[::-1]], axis=1), 0),
               ("rows", lambda v: np.stack([v[::-1], v], axis=0), -1)]
    k = 0
    for N in Ns:
        for dt in dts:
            k += 1
            name, build, axis = layouts[k % 3]
            if dt.startswith("float") or dt == "longdouble":
                v = np.array([rnd.randrange(-64, 65) for _ in range(N)], dtype=np.float64) / 64.0
            else:
                v = np.array([rnd.randrange(0, 100) for _ in range(N)], dtype=np.float64)
            x = build(v).astype(dt)
            y = r2c(x, axis=axis)
            M0 = (N + 1) // 2
            want_shape = {"rank1": (M0,), "cols": (M0, 2), "rows": (2, M0)}[name]
            if tuple(y.shape) != want_shape:
                # a result of another shape cannot be laned; report it through an event whose outlen is wrong
                evs.append({"id": eid0 + len(evs), "ev": "longshape", "N": N, "prec": "double", "dtype": dt, "layout": name,
                            "outlen": -1, "got_shape": list(y.shape), "want_shape": list(want_shape)})
                continue
            lane_x = x if name == "rank1" else (x[:, 0] if name == "cols" else x[1])
            lane_y = y if name == "rank1" else (y[:, 0] if name == "cols" else y[1])
            prec = "single" if dt in SINGLE else "double"
            M = (N + 1) // 2
            ms = sorted(set([0, 1, M - 1, M - 2, M - 3, M // 2] + [rnd.randrange(M) for _ in range(18)]
                            + [rnd.randrange(M - M // 8, M) for _ in range(8)]))
            amax = float(np.abs(v).max())
            lg = int(np.ceil(np.log2(N)))
            budget = (64 * (2.0 ** -23 if prec == "single" else 2.0 ** -52) * lg + 4 * N * 2.0 ** -52) * max(1.0, amax) + 2.0 ** -50
            ok_all = False
            if lane_y.shape == (M,):
                sgn = np.where(np.arange(M) % 2 == 0, 1.0, -1.0)
                ok_all = bool(np.abs(sgn * np.asarray(lane_y.real, dtype=np.float64) - np.asarray(lane_x[::2], dtype=np.float64)).max() <= budget)
                evs.append({"id": eid0 + len(evs), "ev": "longreal", "N": N, "prec": prec, "dtype": dt, "layout": name, "outlen": int(lane_y.shape[0]),
                            "amax": exact.fix(Fraction(amax)), "ms": ms, "xs": [exact.fix(Fraction(float(lane_x[2 * m]))) for m in ms],
                            "ys": [exact.fix(Fraction(float(lane_y[m].real))) for m in ms],
                            "flags": {"all_m_within_budget": ok_all, "dtype": str(y.dtype) == ("complex64" if dt == "float32" else "complex128")},
                            "src": "long"})
            else:
                evs.append({"id": eid0 + len(evs), "ev": "longreal", "N": N, "prec": prec, "dtype": dt, "layout": name,
                            "outlen": -1, "amax": exact.fix(1), "ms": [], "xs": [], "ys": [], "flags": {"shape": False}, "src": "long"})
        for dt in ("float32", "float64"):
            w = rnd.randrange(1, (N - 1) // 2 + 1) if 2 * ((N - 1) // 2) < N or True else 1
            if 2 * w >= N:
                w = (N - 1) // 2
            phn = rnd.randrange(0, 16)
            kk = (np.arange(N, dtype=np.int64) * w) % N                      # exact phase reduction
            x = np.cos(2 * np.pi * (kk / N + phn / 16.0)).astype(dt)
            y = r2c(x)
            M = (N + 1) // 2
            ms = sorted(set([0, 1, M - 1, M - 2] + [rnd.randrange(M) for _ in range(10)] + [rnd.randrange(M - M // 8, M) for _ in range(6)]))
            if y.shape != (M,):
                ms = []
            evs.append({"id": eid0 + len(evs), "ev": "longtone", "N": N, "w": w, "ph": exact.rat(Fraction(phn, 16)), "prec": "single" if dt == "float32" else "double",
                        "dtype": dt, "outlen": int(y.shape[0]) if y.ndim == 1 else -1, "amax": exact.fix(1), "ms": ms,
                        "ys": [exact.cfix(complex(y[m])) for m in ms], "src": "long"})
    return evs


# ------------------------------------------------------------------ main
def run(chk):
    import numpy as np
    import exact
    import reader_lib as rl
    from pulsarbat.utils import real_to_complex as r2c
    rnd = random.Random(chk.seed)
    th = chk.tier == "thorough"
    os.makedirs(SCR, exist_ok=True)
    tmp = tempfile.mkdtemp(prefix="c19-", dir=SCR)
    try:
        with cf.ThreadPoolExecutor(max_workers=6) as pool:
            jgen = pool.submit(_gen, "Gen_R2C_full.cfg" if th else "Gen_R2C_quick.cfg", 10, 3000)
            jneg = pool.submit(rl.tlc_run, "MC_R2C", "Neg_R2C_weight.cfg", workers=2, timeout=600)
            # ---- code -> Trace: random inputs of every real dtype, rank and axis; the reader path
            maxn = 32 if th else 16
            events = random_events(np, exact, r2c, rnd, 3000 if th else 700, maxn, 0)
            written = rl.write_all(tmp)
            samples = rl.sample_files()
            fsets = [written["vdifr"], written["vdifr_lsb"], samples["s_vdif"], samples["s_vdif_lsb"], written["realodd"],
                     written["realodd_lsb"], written["reallong"]]
            rev = reader_events(np, exact, rl, fsets, rnd, 12 if th else 3, 8 if not th else 16, len(events))
            events += rev
            events += reader_length_events(np, exact, rl, r2c, fsets + [written["reallong_lsb"]], len(events))
            events += long_read_events(np, exact, rl, r2c, [written["reallong"], written["reallong_lsb"]], th, len(events))
            jnegs = [(c, pool.submit(rl.tlc_run, "MC_Reader", c, workers=1, timeout=300)) for c in ("Neg_Reader_block.cfg", "Neg_Reader_ceil.cfg")]
            lev = long_axis_events(np, exact, r2c, rnd, th, len(events))
            for e in lev:
                if e["ev"] == "longshape":       # discrete field: the output must have ceil(N/2) samples along the axis
                    chk.violation("long-axis:shape:%s" % e["layout"],
                                  "real_to_complex on a %s %s input of length %d returned shape %r, expected %r"
                                  % (e["dtype"], e["layout"], e["N"], e["got_shape"], e["want_shape"]),
                                  {"kind": "long", "ev": "longshape", "N": e["N"], "dtype": e["dtype"]})
            lev = [e for e in lev if e["ev"] != "longshape"]
            for i, e in enumerate(lev):
                e["id"] = len(events) + i
            events += lev
            # refusals and the dtype rule
            # complex input is refused whatever its shape: every rank, every axis, also empty along the chosen or another axis
            for dt in COMPLEX_DTYPES:
                for shape in ((4, 2), (5,), (1,), (0,), (4, 0), (0, 3), (2, 0, 3), (0, 0), (2, 3, 1)):
                    for ax in range(-len(shape), len(shape)):
                        try:
                            got = str(r2c(np.ones(shape, dtype=dt), axis=ax).dtype)
                        except ValueError:
                            got = "ValueError"
                        except Exception as e:  # noqa
                            got = type(e).__name__
                        events.append({"id": len(events), "ev": "dtype", "din": dt, "got": got, "src": "complex", "shape": list(shape), "axis": ax})
            rnd.shuffle(events)
            jtrace = pool.submit(rl.validate, "Trace_R2C", events, chk, batch=max(60, len(events) // 6 + 1), jobs=6, name="C19",
                                 cfg="Trace_R2C_full.cfg" if th else "Trace_R2C.cfg")
            # ---- TLC: model checking + generation
            neg = jneg.result()
            chk.add_tlc("Neg_R2C_weight (h[N//2] = 1 for odd N, must be rejected)", neg)
            chk.notes["negative_model_rejected"] = neg.violation
            if neg.violation != "InvRealPart":
                chk.machinery_errors.append("Neg_R2C_weight was not rejected")
            for c, j in jnegs:       # reader models that convert block-wise / round the length up must be rejected
                rn = j.result()
                chk.add_tlc(c + " (must be rejected)", rn)
                if rn.violation != "ReadIsFunctionOfArgs":
                    chk.machinery_errors.append(c + " was not rejected")
            r, recs = jgen.result()
            chk.mc_must_hold("MC+Gen_R2C_" + ("full" if th else "quick"), r)
            chk.exhaustive = r.ok
            if not r.ok or not recs:
                chk.machinery_errors.append("generation failed")
                return
            replay_generated(chk, np, r2c, recs, rnd, th)
            # ---- verdicts of the trace
            rej, n = jtrace.result()
            chk.validated += n
            kinds = {}
            for e in events:
                kinds[e["ev"] + ":" + e.get("src", "reader")] = kinds.get(e["ev"] + ":" + e.get("src", "reader"), 0) + 1
            chk.notes["trace_events"] = kinds
            for e, failed in rej:
                if e["ev"] == "r2c" and e["src"] == "random":
                    N = e["shape"][e["axis"]]
                    chk.violation("r2c:%s:N%s:%s" % ("single" if e["dtype"] in SINGLE else "double", "=%d" % N if N < 4 else (" odd" if N % 2 else " even"), "+".join(failed)),
                                  "real_to_complex(%s array of shape %r, axis=%d), lane %d: %s" % (e["dtype"], e["shape"], e["axis"], e["lane"], failed),
                                  {"kind": "random", "dtype": e["dtype"], "shape": e["shape"], "axis": e["axis"], "vals": e["vals"]})
                elif e["ev"] == "r2c":
                    chk.violation("reader-path:%s:%s:%s" % (e["fileset"], e.get("how", "numpy").split(" ")[0], "+".join(failed)),
                                  "%s read(%d, %d) on %s is not R2C(raw[2o:2o+2n])%s: %s" % (e.get("how", "numpy"), e["o"], e["n"], e["fileset"], " conjugated" if e["cj"] else "", failed),
                                  {"kind": "reader", "fileset": e["fileset"], "o": e["o"], "n": e["n"]})
                elif e["ev"] == "readerlen":
                    chk.violation("reader-path:length:%s:%s" % ("odd" if e["rawlen"] % 2 else "even", "+".join(sorted(failed))),
                                  "real-sampled stream %s of %d raw samples: reader length %d, %s" % (e["fileset"], e["rawlen"], e["len"], failed),
                                  {"kind": "readerlen", "fileset": e["fileset"]})
                elif e["ev"] == "longreal" and e.get("src") == "reader-long":
                    chk.violation("reader-path:long-read:%s:%s" % (e["how"].split(" ")[0], "+".join(sorted(failed))),
                                  "%s read(%d, %d) on %s is not the conversion of raw[2o : 2o+2n]: %s" % (e["how"], e["o"], e["n"], e["fileset"], failed),
                                  {"kind": "longread", "fileset": e["fileset"], "o": e["o"], "n": e["n"], "how": e["how"]})
                elif e["ev"] in ("longreal", "longtone"):
                    chk.violation("long-axis:%s:%s:%s" % (e["ev"], e["prec"], "+".join(sorted(failed))),
                                  "real_to_complex on %s input of length %d (%s): %s" % (e["dtype"], e["N"], e.get("layout", "tone w=%s" % e.get("w")), failed),
                                  {"kind": "long", "ev": e["ev"], "N": e["N"], "dtype": e["dtype"]})
                elif e["ev"] == "reader":
                    chk.violation("reader-path:%s:%s" % (e["fileset"], "+".join(failed)), "real-sampled reader %s: %s (%r)" % (e["fileset"], failed, e),
                                  {"kind": "reader", "fileset": e["fileset"], "o": e["o"], "n": e["n"]})
                else:
                    shp = e.get("shape")
                    empty = shp is not None and 0 in shp
                    chk.violation("dtype:%s%s" % (e["din"], ":empty" if empty else ""),
                                  "real_to_complex on %s input%s gave %s" % (e["din"], "" if shp is None else " of shape %r, axis=%d" % (tuple(shp), e["axis"]), e["got"]),
                                  {"kind": "dtype", "dtype": e["din"], "shape": shp, "axis": e.get("axis", 0)})
    finally:
        shutil.rmtree(tmp, ignore_errors=True)
    chk.assumptions += [
        "kernel Fix (60-bit fixed point, CosSin, O(N^2) DFT) is accurate to ~1e-16 (kernel self-test in setup)",
        "float16 input is transformed by scipy.fft in single precision: tolerance 1e-5 like float32; all other dtypes 1e-12 "
        "(relative to max(1, sum|x|))",
        "lengths N <= 12 (generated, every x in {-1,0,1}^N for N <= 6) and N <= 16 (random / reader lanes) in the quick tier",
    ]


def replay_generated(chk, np, r2c, recs, rnd, th):
    table = None
    data = []
    for rec in recs:
        if rec["kind"] == "dtypes":
            table = rec["table"]
        else:
            data.append(rec)
    if table is None:
        chk.machinery_errors.append("no dtype table generated")
        return
    counts = {}
    # (a) the dtype rule, from TLC's table
    for dt, want in sorted(table.items()):
        try:
            got = str(r2c(np.ones(5, dtype=dt)).dtype)
        except ValueError:
            got = "ValueError"
        chk.validated += 1
        if got != want:
            chk.violation("dtype:%s" % dt, "real_to_complex on %s input gave %s, the specification says %s" % (dt, got, want),
                          {"kind": "dtype", "dtype": dt})
    # (b) every generated case through the real function, every real dtype that can hold the input
    for i, rec in enumerate(data):
        vals = [_unfix(v) for v in rec["flat"]]
        for dt in REAL_DTYPES:
            if not representable(vals, dt) or (rec["kind"] == "tone" and dt not in ("float32", "float64", "longdouble")):
                continue
            rank = len(rec["shape"])
            axis_py = rec["ax"] - 1 if (i + len(dt)) % 2 else rec["ax"] - 1 - rank       # negative axis numbers too
            bad = replay_record(np, r2c, rec, dt, axis_py)
            chk.validated += 1
            counts[rec["kind"]] = counts.get(rec["kind"], 0) + 1
            if bad:
                N = rec["shape"][rec["ax"] - 1]
                prec = dt if bad[0] == "dtype" else ("single" if dt in SINGLE else "double")
                chk.violation("generated:%s:%s:rank%d:N%s:%s" % (rec["kind"], prec, rank, "=%d" % N if N < 4 else (" odd" if N % 2 else " even"), bad[0]),
                              "real_to_complex(%s %s input of shape %r, axis=%d): %s" % (dt, rec["kind"], rec["shape"], axis_py, bad[1]),
                              {"kind": "generated", "rec": rec, "dtype": dt, "axis": axis_py})
        if i in (5, 400, 1200):
            chk.sample({"kind": rec["kind"], "shape": rec["shape"], "axis": rec["ax"] - 1, "x": [float(v) for v in vals][:8],
                        "expected_from_TLC": [str(_cfloat(v)) for v in rec["oflat"]][:4]})
    # (c) the rank-1 cases as lanes of rank-2 and rank-3 arrays, along every axis
    for X, ax, Y, nonneg, binary in embed_cases(np, data, rnd, 6 if th else 2):
        for dt in REAL_DTYPES:
            if (dt == "bool" and not binary) or (dt.startswith("uint") and not nonneg):
                continue
            x = X.astype(dt)
            try:
                bad = compare(np, x, r2c(x, axis=ax if rnd.random() < 0.5 else ax - x.ndim), Y, dt, ax)
            except Exception as e:  # noqa
                bad = ("raises", "%s: %s" % (type(e).__name__, str(e)[:150]))
            chk.validated += 1
            counts["embedded_rank%d" % X.ndim] = counts.get("embedded_rank%d" % X.ndim, 0) + 1
            if bad:
                prec = dt if bad[0] == "dtype" else ("single" if dt in SINGLE else "double")
                chk.violation("embedded:%s:rank%d:axis%d:%s" % (prec, X.ndim, ax, bad[0]),
                              "real_to_complex(%s array %r, axis=%d): %s" % (dt, X.shape, ax, bad[1]),
                              {"kind": "embedded", "x": X.tolist(), "axis": ax, "dtype": dt, "want": [[c.real, c.imag] for c in Y.ravel()],
                               "wshape": list(Y.shape)})
    chk.notes["generated_cases_replayed"] = counts
    chk.notes["generated_records"] = len(data)


def replay(doc):
    import numpy as np
    import exact
    import reader_lib as rl
    from pulsarbat.utils import real_to_complex as r2c
    c = doc["case"]
    chk = framework.Check(PID, "quick", 0)
    bad = []
    if c["kind"] == "dtype":
        try:
            got = str(r2c(np.ones(tuple(c.get("shape") or (5,)), dtype=c["dtype"]), axis=c.get("axis", 0)).dtype)
        except ValueError:
            got = "ValueError"
        want = "ValueError" if c["dtype"] in COMPLEX_DTYPES else ("complex64" if c["dtype"] == "float32" else "complex128")
        if got != want:
            bad.append("%s -> %s, expected %s" % (c["dtype"], got, want))
    elif c["kind"] == "generated":
        b = replay_record(np, r2c, c["rec"], c["dtype"], c["axis"])
        if b:
            bad.append(b[1])
    elif c["kind"] == "embedded":
        X = np.array(c["x"])
        Y = np.array([complex(a, b) for a, b in c["want"]]).reshape(c["wshape"])
        b = compare(np, X.astype(c["dtype"]), r2c(X.astype(c["dtype"]), axis=c["axis"]), Y, c["dtype"], c["axis"])
        if b:
            bad.append(b[1])
    elif c["kind"] in ("readerlen", "longread"):
        os.makedirs(SCR, exist_ok=True)
        tmp = tempfile.mkdtemp(prefix="c19-", dir=SCR)
        try:
            fs = dict(rl.write_all(tmp))
            fs.update(rl.sample_files())
            if c["kind"] == "readerlen":
                evs = reader_length_events(np, exact, rl, r2c, [fs[c["fileset"]]], 0)
            else:
                evs = [e for e in long_read_events(np, exact, rl, r2c, [fs["reallong"], fs["reallong_lsb"]], True, 0)
                       if e["n"] == c["n"] and e["fileset"] == c["fileset"]]
            rej, _ = rl.validate("Trace_R2C", evs, chk, name="replay", cfg="Trace_R2C_full.cfg")
            bad += ["%s %s: %s" % (e["ev"], e["fileset"], f) for e, f in rej]
        finally:
            shutil.rmtree(tmp, ignore_errors=True)
    elif c["kind"] == "long":
        import random as _r
        evs = [e for e in long_axis_events(np, exact, r2c, _r.Random(0), True, 0) if e["N"] == c["N"] and e["dtype"] == c["dtype"] and e["ev"] == c["ev"]]
        rej, _ = rl.validate("Trace_R2C", evs, chk, name="replay", cfg="Trace_R2C_full.cfg")
        bad += ["%s N=%d %s: %s" % (e["ev"], e["N"], e["dtype"], f) for e, f in rej]
    else:
        os.makedirs(SCR, exist_ok=True)
        tmp = tempfile.mkdtemp(prefix="c19-", dir=SCR)
        try:
            if c["kind"] == "random":
                x = np.array(c["vals"], dtype=np.float64).reshape(c["shape"]).astype(c["dtype"])
                y = r2c(x, axis=c["axis"])
                ax = c["axis"] % len(c["shape"])
                evs = lane_events(np, exact, x, y, ax, 5 if c["dtype"] in SINGLE else 12, 0, {"src": "random"})
            else:
                fs = dict(rl.write_all(tmp))
                fs.update(rl.sample_files())
                fsx = fs[c["fileset"]]
                z = fsx.reader.read(c["o"], c["n"])
                evs = lane_events(np, exact, fsx.direct(2 * c["o"], 2 * c["n"]), np.asarray(z.data), 0, 5, 0, {"src": "reader"}, cj=fsx.lsb,
                                  max_lanes=8)
            rej, _ = rl.validate("Trace_R2C", evs, chk, name="replay", cfg="Trace_R2C_full.cfg")
            bad += ["lane %d: %s" % (e["lane"], f) for e, f in rej]
        finally:
            shutil.rmtree(tmp, ignore_errors=True)
    for b in bad:
        print("VIOLATION property=%s replay=(this case)  # %s: %s" % (PID, doc["key"], b))
    if not bad:
        print("case passes")
    return 1 if bad else 0
