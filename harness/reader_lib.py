"""Helpers shared by C11 (readers) and C19 (real_to_complex):

* file sets with known ("ramp") content written with the `baseband` package and
  the four sample files of /repo/tests/data, each with its abstract file record
  (spec/ReaderFile.tla),
* the abstraction function  sample value -> small integer code,
* forced schedules: `BasebandReader._get_fh` wrapped so that the open / seek /
  read / close steps of concurrent reads happen in the order TLC printed,
* trace events for spec/Trace_Reader.tla and a parallel trace validator.
"""
import concurrent.futures as cf
import glob
import json
import os
import threading
from fractions import Fraction

import numpy as np
import astropy.units as u
from astropy.time import Time
import baseband
from baseband import vdif, dada, guppi
import pulsarbat as pb
import pulsarbat.readers as pbr

import exact
import framework
import tlc

DATA = os.path.join(os.environ.get("VERIF_REPO", "/repo"), "tests", "data")
STEPS = ("open", "seek", "read", "close")
T0 = Time("2020-01-01T00:00:00", format="isot", precision=9)


# ------------------------------------------------------------------ value <-> index
class Enc:
    """How a format stores one real number in 8 (or 2) bits: idx(v) is the
    stored level number; negation maps idx -> top - idx."""

    def __init__(self, name):
        self.name = name
        self.top = {"int8": 256, "vdif8": 255, "vdif2": 3}[name]
        self.base = {"int8": 129, "vdif8": 128, "vdif2": 0}[name]   # idx of the smallest positive ramp imaginary part

    def value(self, idx):
        idx = np.asarray(idx)
        if self.name == "int8":
            return (idx - 128).astype(np.float32)
        if self.name == "vdif8":
            return ((idx.astype(np.float32) - np.float32(127.5)) / np.float32(35.5)).astype(np.float32)
        raise ValueError(self.name)

    def idx(self, v, slack):
        """-> (integer level numbers, validity mask)"""
        v = np.asarray(v, dtype=np.float64)
        if self.name == "int8":
            x = v + 128.0
        elif self.name == "vdif8":
            x = v * 35.5 + 127.5
        else:
            lv = np.array([-3.3359, -1.0, 1.0, 3.3359])
            i = np.abs(v[..., None] - lv).argmin(-1)
            return i, np.abs(lv[i] - v) < 1e-3
        i = np.rint(x)
        return i.astype(np.int64), (np.abs(x - i) < slack) & (i >= 0) & (i <= 255)


# ------------------------------------------------------------------ file sets
class FileSet:
    """A set of files readable as one stream + its abstract record."""

    def __init__(self, key, kind, real, lsb, spf, fpf, nfiles, A, B, enc, mode, name, bb_kwargs, make,
                 mask=None, md=32768, raw=None, cplx=True):
        self.key, self.kind, self.real, self.lsb = key, kind, bool(real), bool(lsb)
        self.spf, self.fpf, self.nfiles, self.A, self.B = spf, fpf, nfiles, A, B
        self.enc, self.mode, self.name, self.bb_kwargs, self._make = Enc(enc), mode, name, bb_kwargs, make
        self.mask = mask if mask is not None else [[self.lsb] * B for _ in range(A)]
        self.md, self.raw, self.cplx = md, raw, cplx      # cplx: raw samples are complex numbers
        self._reader = None
        self._whole = None
        self.light = False         # a variant of another set: smaller histories
        self.memory = False        # pure-Python BaseReader subclass, no baseband underneath
        self.assigned = None       # (rate factor, start shift in s): metadata assigned through the public setters

    def by_assignment(self, factor=3, shift=7):
        """The same files behind a reader whose derived attributes were all read once and whose
        sample_rate / start_time were then ASSIGNED new valid values: everything the reader reports
        afterwards is judged against the new metadata (state cached across assignments shows here)."""
        import copy
        c = copy.copy(self)
        c.key = self.key + "@assigned"
        c._reader = None
        c.assigned = (factor, shift)
        base = self._make
        n_made = [0]

        def make():
            rd = base()
            for at in ("dt", "time_length", "stop_time", "sample_rate", "start_time"):
                getattr(rd, at)
            rd.time_at(1)
            rd.time_at(1, unit=u.s)
            rd.contains(rd.start_time)
            rd.offset_at(rd.stop_time)
            rd.read(0, 1)
            n_made[0] += 1
            steps = [("sample_rate", rd.sample_rate * factor), ("start_time", rd.start_time + shift * u.s)]
            for name, val in (steps if n_made[0] % 2 else steps[::-1]):
                setattr(rd, name, val)
            return rd
        c._make = make
        return c

    @property
    def rawlen(self):
        return self.spf * self.fpf * self.nfiles

    @property
    def outlen(self):
        return self.rawlen // 2 if self.real else self.rawlen

    @property
    def reader(self):
        if self._reader is None:
            self._reader = self._make()
        return self._reader

    def new_reader(self):
        return self._make()

    def F(self, scale=1):
        assert self.spf % scale == 0
        return {"kind": self.kind, "real": self.real, "lsb": self.lsb, "spf": self.spf // scale, "fpf": self.fpf,
                "nfiles": self.nfiles, "A": self.A, "B": self.B, "t0": 0, "per": 2, "mask": self.mask,
                "cjtop": self.enc.top, "blk": 0, "ceil": False}

    def open(self):
        return baseband.open(self.name, "rs", **self.bb_kwargs)

    def direct(self, pos, cnt):
        """what the underlying stream reader delivers, shape (cnt, A, B)"""
        if self.memory:
            if pos < 0 or cnt < 0 or pos + cnt > self.rawlen:
                raise EOFError("outside the array")
            return self.raw[pos:pos + cnt]
        with self.open() as fh:
            fh.seek(pos)
            z = fh.read(cnt)
        return z.reshape((z.shape[0], self.A, self.B))

    def whole(self):
        if self._whole is None:
            self._whole = self.direct(0, self.rawlen)
        return self._whole

    # ---- abstraction function
    def ramp_codes(self, out):
        """reader output (n, X, Y) -> flat list of element codes 2*K + cj  (-1: not a ramp value)"""
        out = np.asarray(out)
        if self.real:
            sgn = np.where(np.arange(out.shape[0]) % 2 == 0, 1.0, -1.0).reshape((-1,) + (1,) * (out.ndim - 1))
            i, ok = self.enc.idx(out.real * sgn, 0.05)
            code = 2 * i
        elif self.cplx:
            ir, okr = self.enc.idx(out.real, 0.01)
            ii, oki = self.enc.idx(out.imag, 0.01)
            cj = ii < 128
            ii = np.where(cj, self.enc.top - ii, ii)
            ok = okr & oki & (ii >= self.enc.base)
            code = 2 * (ir + 256 * (ii - self.enc.base)) + cj
        else:
            i, ok = self.enc.idx(out, 0.01)
            code = 2 * i
        return [int(x) for x in np.where(ok, code, -1).ravel()]

    def value_codes(self, z):
        """values (any shape) -> flat list of value codes (direct mode)"""
        z = np.asarray(z)
        if np.iscomplexobj(z) and self.cplx:
            ir, okr = self.enc.idx(z.real, 0.01)
            ii, oki = self.enc.idx(z.imag, 0.01)
            code, ok = ir * 1000 + ii, okr & oki
        else:
            code, ok = self.enc.idx(z.real, 0.05)
        return [int(x) for x in np.where(ok, code, -1).ravel()]

    def real_value_codes(self, out):
        """real-sampled files, direct mode: (-1)^m Re(out[m]) -> value code"""
        out = np.asarray(out)
        sgn = np.where(np.arange(out.shape[0]) % 2 == 0, 1.0, -1.0).reshape((-1,) + (1,) * (out.ndim - 1))
        return self.value_codes(out.real * sgn)


class MemoryReader(pbr.BaseReader):
    """A reader that is not backed by baseband: BaseReader's own read / Dask / time logic over an array."""

    def __init__(self, data, sample_rate, start_time):
        self._data = data
        super().__init__(shape=data.shape, dtype=data.dtype, signal_type=pb.Signal, sample_rate=sample_rate,
                         start_time=start_time)

    def _read_array(self, offset, n, /, **kwargs):
        return self._data[offset:offset + n].copy()


LEAP_START = Time("2016-12-31T23:59:50", format="isot", precision=9)     # 23:59:60 exists ten seconds later


def _numbered(pattern):
    """the files of a sequence in the order of their sequence numbers (which need not be zero-padded)"""
    import re
    return sorted(glob.glob(pattern), key=lambda p: int(re.findall(r"(\d+)\.[a-z]+$", p)[0]))


def _ramp_k(L, A, B):
    i = np.arange(L).reshape(L, 1, 1)
    return (i * A + np.arange(A).reshape(1, A, 1)) * B + np.arange(B).reshape(1, 1, B)


def _ramp(enc, L, A, B, cplx):
    k = _ramp_k(L, A, B)
    e = Enc(enc)
    if cplx:
        assert k.max() // 256 + e.base <= 255
        return (e.value(k % 256) + 1j * e.value(k // 256 + e.base)).astype(np.complex64)
    return e.value(k % 256)


def write_all(d):
    """Write the harness' file sets into directory d; -> dict key -> FileSet."""
    # Readers are given the format explicitly, except vdifc_mask, s_vdif_lsb and s_dada_lsb, which use
    # baseband's format detection like the repository's tests.  (The detection switches the process-wide
    # warnings filter to 'error' for a moment - not thread-safe - so the thread pool uses the former only.)
    fs = {}

    # VDIF, one thread, two channels, 8 frames of 16 samples, complex and real
    for key, cplx in (("vdifc", True), ("vdifr", False)):
        fn = os.path.join(d, key + ".vdif")
        data = _ramp("vdif8", 128, 1, 2, cplx)
        hdr = vdif.VDIFHeader.fromvalues(edv=1, time=T0, nchan=2, bps=8, complex_data=cplx, thread_id=0,
                                         samples_per_frame=16, station="vf", sample_rate=16 * u.kHz)
        with vdif.open(fn, "ws", header0=hdr, nthread=1, squeeze=False) as fw:
            fw.write(data)
        for lsbname, lsb, mask in (("", False, None), ("_lsb", True, None), ("_mask", [[True, False]], [[True, False]])):
            if lsbname == "_mask" and not cplx:
                continue
            fs[key + lsbname] = FileSet(
                key + lsbname, "plain", not cplx, lsb is True, 16, 8, 1, 1, 2, "vdif8", "ramp", fn, {"squeeze": False},
                (lambda fn=fn, lsb=lsb, kw=({} if lsbname == "_mask" else {"format": "vdif"}):
                 pbr.BasebandReader(fn, squeeze=False, lower_sideband=lsb, **kw)),
                mask=mask, raw=data, md=32768 if cplx else 256, cplx=cplx)
    # VDIF, two threads of one channel (sample shape (2, 1))
    fn = os.path.join(d, "vdift.vdif")
    data = _ramp("vdif8", 64, 2, 1, True)
    hdr = vdif.VDIFHeader.fromvalues(edv=1, time=T0, nchan=1, bps=8, complex_data=True, thread_id=0,
                                     samples_per_frame=8, station="vf", sample_rate=16 * u.kHz)
    with vdif.open(fn, "ws", header0=hdr, nthread=2, squeeze=False) as fw:
        fw.write(data)
    fs["vdift"] = FileSet("vdift", "plain", False, False, 8, 8, 1, 2, 1, "vdif8", "ramp", fn, {"squeeze": False},
                          lambda fn=fn: pbr.BasebandReader(fn, squeeze=False, format="vdif"), raw=data)
    # DADA, two polarisations, four files of one frame
    data = _ramp("int8", 64, 2, 1, True)
    hdr = dada.DADAHeader.fromvalues(time=T0, offset=0 * u.s, npol=2, nchan=1, bps=8, complex_data=True,
                                     sample_rate=1 * u.MHz, samples_per_frame=16, sideband=True)
    hdr["FREQ"] = 1400.0
    with dada.open(os.path.join(d, "dd_{frame_nr:02d}.dada"), "ws", header0=hdr, squeeze=False) as fw:
        fw.write(data)
    names = sorted(glob.glob(os.path.join(d, "dd_*.dada")))
    fs["dada"] = FileSet("dada", "plain", False, False, 16, 1, 4, 2, 1, "int8", "ramp", names,
                         {"format": "dada", "squeeze": False},
                         lambda names=names: pbr.BasebandReader(names, format="dada", squeeze=False), raw=data)
    # the same layout starting ten seconds before a leap second, 4 samples per second: offsets 40..43 lie in 23:59:60
    data = _ramp("int8", 64, 2, 1, True)
    hdr = dada.DADAHeader.fromvalues(time=LEAP_START, offset=0 * u.s, npol=2, nchan=1, bps=8, complex_data=True,
                                     sample_rate=4 * u.Hz, samples_per_frame=16, sideband=True)
    hdr["FREQ"] = 1400.0
    with dada.open(os.path.join(d, "lp_{frame_nr:02d}.dada"), "ws", header0=hdr, squeeze=False) as fw:
        fw.write(data)
    names = sorted(glob.glob(os.path.join(d, "lp_*.dada")))
    fs["dadaleap"] = FileSet("dadaleap", "plain", False, False, 16, 1, 4, 2, 1, "int8", "ramp", names,
                             {"format": "dada", "squeeze": False},
                             lambda names=names: pbr.BasebandReader(names, format="dada", squeeze=False), raw=data)
    # no files at all: a pure-Python BaseReader subclass over the same ramp
    data = _ramp("int8", 64, 2, 1, True)
    fs["memory"] = FileSet("memory", "plain", False, False, 16, 1, 4, 2, 1, "int8", "ramp", None, {},
                           lambda data=data: MemoryReader(data, 2 * u.kHz, T0), raw=data)
    fs["memory"].memory = True
    # GUPPI raw, 3 files x 2 frames x 16 samples, (npol, nchan) = (2, 4); upper and lower sideband
    for key, usb, pol in (("guppi", True, "LIN"), ("guppil", False, "CIRC")):
        data = _ramp("int8", 96, 2, 4, True)
        hdr = guppi.GUPPIHeader.fromvalues(time=T0, sample_rate=1 * u.kHz, samples_per_frame=16, overlap=0, npol=2,
                                           nchan=4, bps=8, complex_data=True, sideband=usb, channels_first=True,
                                           pktsize=64)
        hdr["OBSFREQ"] = 344.25
        hdr["FD_POLN"] = pol
        with guppi.open(os.path.join(d, key + "_{file_nr:02d}.raw"), "ws", header0=hdr, frames_per_file=2, squeeze=False) as fw:
            fw.write(data)
        names = sorted(glob.glob(os.path.join(d, key + "_*.raw")))
        fs[key] = FileSet(key, "guppi", False, not usb, 16, 2, 3, 2, 4, "int8", "ramp", names,
                          {"format": "guppi", "squeeze": False},
                          lambda names=names: pbr.GUPPIRawReader(names), raw=data)
    # DADA full Stokes (NPOL 4, NDIM 1), BW > 0 and BW < 0; 4 files of 4 samples, and a longer set
    for key, usb, spf, nf in (("stokesu", True, 4, 4), ("stokesl", False, 4, 4), ("stokeslong", False, 8, 6)):
        L = spf * nf
        data = _ramp("int8", L, 4, 4, False)
        hdr = dada.DADAHeader.fromvalues(time=T0, offset=0 * u.s, npol=4, nchan=4, bps=8, complex_data=False,
                                         sample_rate=1 * u.kHz, samples_per_frame=spf, sideband=usb)
        hdr["FREQ"] = 7000.0
        with dada.open(os.path.join(d, key + "_{frame_nr:02d}.dada"), "ws", header0=hdr, squeeze=False) as fw:
            fw.write(data)
        names = sorted(glob.glob(os.path.join(d, key + "_*.dada")))
        fs[key] = FileSet(key, "stokes", False, not usb, spf, 1, nf, 4, 4, "int8", "ramp", names,
                          {"format": "dada", "squeeze": False},
                          lambda names=names: pbr.DADAStokesReader(names), raw=data, md=256, cplx=False)
    # real-sampled DADA (npol 1, nchan 4) with an ODD total number of raw samples: 15 x 5 = 75 -> 37 samples (ramp), and
    # 4001 x 17 = 68017 -> 34008 samples of fixed pseudo-random content, long enough for single reads of > 2**15 samples
    for key, spf, nf in (("realodd", 15, 5), ("reallong", 4001, 17)):
        L = spf * nf
        if key == "realodd":
            data = _ramp("int8", L, 1, 4, False)
        else:
            data = np.random.default_rng(20260928).integers(-100, 101, size=(L, 1, 4)).astype(np.float32)
        hdr = dada.DADAHeader.fromvalues(time=T0, offset=0 * u.s, npol=1, nchan=4, bps=8, complex_data=False,
                                         sample_rate=2 * u.MHz, samples_per_frame=spf, sideband=True)
        hdr["FREQ"] = 1400.0
        with dada.open(os.path.join(d, key + ".{frame_nr}.dada"), "ws", header0=hdr, squeeze=False) as fw:
            fw.write(data)
        names = _numbered(os.path.join(d, key + ".*.dada"))          # reallong.0.dada ... reallong.16.dada, in sequence order
        for sfx, lsb in (("", False), ("_lsb", True)):
            fs[key + sfx] = FileSet(key + sfx, "plain", True, lsb, spf, 1, nf, 1, 4, "int8", "ramp" if key == "realodd" else "direct", names,
                                    {"format": "dada", "squeeze": False},
                                    lambda names=names, lsb=lsb: pbr.BasebandReader(names, format="dada", squeeze=False, lower_sideband=lsb),
                                    raw=data, md=256, cplx=False)
    # a GUPPI scan of twelve files with un-padded sequence numbers (scan.10 sorts before scan.2 as text): the list is
    # handed over in sequence order
    data = _ramp("int8", 96, 2, 4, True)
    hdr = guppi.GUPPIHeader.fromvalues(time=T0, sample_rate=1 * u.kHz, samples_per_frame=8, overlap=0, npol=2, nchan=4, bps=8,
                                       complex_data=True, sideband=True, channels_first=True, pktsize=64)
    hdr["OBSFREQ"] = 344.25
    hdr["FD_POLN"] = "LIN"
    with guppi.open(os.path.join(d, "scan.{file_nr}.raw"), "ws", header0=hdr, frames_per_file=1, squeeze=False) as fw:
        fw.write(data)
    names = _numbered(os.path.join(d, "scan.*.raw"))
    assert len(names) == 12
    fs["guppimany"] = FileSet("guppimany", "guppi", False, False, 8, 1, 12, 2, 4, "int8", "ramp", names, {"format": "guppi", "squeeze": False},
                              lambda names=names: pbr.GUPPIRawReader(list(names)), raw=data)
    # argument objects the caller keeps using: the per-element sideband flags are passed as a bool ndarray, an int
    # ndarray or a list; after construction the caller flips the SAME object in place and builds a second reader from
    # it, then overwrites it once more.  Each reader must keep the flags it was constructed with.
    vfn = os.path.join(d, "vdifc.vdif")
    for kind in ("bool", "int", "list"):
        pair = {}

        def build(kind=kind, pair=pair):
            if "first" in pair:
                return
            m0 = [[True, False]]
            arg = np.array(m0, dtype=bool) if kind == "bool" else (np.array(m0, dtype=np.int64) if kind == "int" else [list(x) for x in m0])
            r1 = pbr.BasebandReader(vfn, squeeze=False, format="vdif", lower_sideband=arg)
            before = np.array(r1.read(3, 5).data)
            lazy = r1.dask_read(2, 6)
            before26 = np.array(r1.read(2, 6).data)

            def flip():
                if isinstance(arg, np.ndarray):
                    arg[...] = (~arg if arg.dtype == bool else 1 - arg)
                else:
                    arg[0][0], arg[0][1] = arg[0][1], arg[0][0]
            flip()
            r2 = pbr.BasebandReader(vfn, squeeze=False, format="vdif", lower_sideband=arg)
            r1._verif_flags = {"read_unchanged_after_caller_modified_the_mask_object": bool(np.array_equal(before, np.asarray(r1.read(3, 5).data))),
                               "lazy_read_made_before_computes_the_same": bool(np.array_equal(before26, lazy.data.compute()))}
            before2 = np.array(r2.read(3, 5).data)
            if isinstance(arg, np.ndarray):
                arg[...] = 1
            else:
                arg[0][0] = arg[0][1] = True
            r2._verif_flags = {"read_unchanged_after_caller_modified_the_mask_object": bool(np.array_equal(before2, np.asarray(r2.read(3, 5).data)))}
            if kind != "bool":
                r1._verif_flags["second_reader_" + "read_unchanged_after_caller_modified_the_mask_object"] = \
                    r2._verif_flags["read_unchanged_after_caller_modified_the_mask_object"]
            pair["first"], pair["second"] = r1, r2

        def get(which, build=build, pair=pair):
            build()
            return pair[which]
        cdata = _ramp("vdif8", 128, 1, 2, True)
        for which, mask in (("first", [[True, False]]), ("second", [[False, True]])):
            if which == "second" and kind != "bool":
                continue          # (the second reader of the int / list objects is still built and checked through its flags)
            k = "vdifc_maskobj_%s_%s" % (kind, which)
            fs[k] = FileSet(k, "plain", False, False, 16, 8, 1, 1, 2, "vdif8", "ramp", vfn, {"squeeze": False},
                            lambda which=which, get=get: get(which), mask=mask, raw=cdata)
            fs[k].light = True
    # readers whose metadata was assigned after construction
    for k in ("vdifr", "guppil", "stokesl", "memory", "dadaleap"):
        v = fs[k].by_assignment(3 if k != "dadaleap" else 2, 7 if k != "dadaleap" else 3)
        fs[v.key] = v
    return fs


def sample_files():
    """The four sample file sets of /repo/tests/data."""
    fs = {}
    v = os.path.join(DATA, "sample.vdif")
    for key, lsb in (("s_vdif", False), ("s_vdif_lsb", True)):
        fs[key] = FileSet(key, "plain", True, lsb, 20000, 2, 1, 8, 1, "vdif2", "direct", v, {"squeeze": False},
                          lambda lsb=lsb, kw=({} if lsb else {"format": "vdif"}):
                          pbr.BasebandReader(v, squeeze=False, lower_sideband=lsb, **kw), cplx=False)
    dd = os.path.join(DATA, "sample.dada")
    for key, lsb in (("s_dada", False), ("s_dada_lsb", True)):
        fs[key] = FileSet(key, "plain", False, lsb, 16000, 1, 1, 2, 1, "int8", "direct", dd, {"squeeze": False},
                          lambda lsb=lsb, kw=({} if lsb else {"format": "dada"}):
                          pbr.BasebandReader(dd, squeeze=False, lower_sideband=lsb, **kw))
    g = sorted(glob.glob(os.path.join(DATA, "fake.*.raw")))
    fs["s_guppi"] = FileSet("s_guppi", "guppi", False, False, 1024, 8, 4, 2, 4, "int8", "direct", g,
                            {"format": "guppi", "squeeze": False}, lambda: pbr.GUPPIRawReader(g))
    st = os.path.join(DATA, "stokes_ef.dada")
    fs["s_stokes"] = FileSet("s_stokes", "stokes", False, True, 16, 1, 1, 4, 2048, "int8", "direct", st,
                             {"format": "dada", "squeeze": False}, lambda: pbr.DADAStokesReader(st), cplx=False)
    asg = fs["s_dada"].by_assignment(5, 11)
    fs[asg.key] = asg
    return fs


def status_of(e):
    """exception -> status name used by the specification"""
    if isinstance(e, EOFError):
        return "EOFError"
    if isinstance(e, ValueError):
        return "ValueError"
    if isinstance(e, Warning):
        return "Warning!" + type(e).__name__
    return type(e).__name__


def do_read(reader, o, n, **kw):
    """-> ("ok", Signal) | ("exc", status + ': ' + message)"""
    try:
        return ("ok", reader.read(o, n, **kw))
    except Exception as e:  # noqa
        return ("exc", status_of(e) + ": " + str(e)[:200])


# ------------------------------------------------------------------ forced schedules
class ScheduleError(RuntimeError):
    pass


class Controller:
    """Releases the steps of the reads in exactly the given order."""

    def __init__(self, sched, timeout=6.0):
        self.sched, self.i, self.cv, self.failed, self.timeout = list(sched), 0, threading.Condition(), None, timeout
        self.log = []

    def before(self, rid, step):
        with self.cv:
            ok = self.cv.wait_for(lambda: self.failed is not None or
                                  (self.i < len(self.sched) and tuple(self.sched[self.i]) == (rid, step)), self.timeout)
            if self.failed is None and not ok:
                self.failed = "read %d asked for step %r while the schedule expects %r (position %d)" % (
                    rid, step, self.sched[self.i] if self.i < len(self.sched) else None, self.i)
                self.cv.notify_all()
            if self.failed is not None:
                raise ScheduleError(self.failed)

    def after(self, rid, step):
        with self.cv:
            self.log.append((rid, step))
            self.i += 1
            self.cv.notify_all()

    def fail(self, why):
        with self.cv:
            if self.failed is None:
                self.failed = why
            self.cv.notify_all()


_tls = threading.local()
_orig_get_fh = None
_opens = [0]
_opens_lock = threading.Lock()


class _FhProxy:
    def __init__(self, inner, ctl, rid):
        self._inner, self._ctl, self._rid, self._fh = inner, ctl, rid, None

    def __enter__(self):
        try:
            self._fh = self._inner.__enter__()
        finally:
            self._ctl.after(self._rid, "open")
        return self

    def __exit__(self, *a):
        self._ctl.before(self._rid, "close")
        try:
            return self._inner.__exit__(*a)
        finally:
            self._ctl.after(self._rid, "close")

    def seek(self, *a, **k):
        self._ctl.before(self._rid, "seek")
        try:
            return self._fh.seek(*a, **k)
        finally:
            self._ctl.after(self._rid, "seek")

    def read(self, *a, **k):
        self._ctl.before(self._rid, "read")
        try:
            return self._fh.read(*a, **k)
        finally:
            self._ctl.after(self._rid, "read")

    def __getattr__(self, k):
        return getattr(self._fh if self._fh is not None else self._inner, k)


def _patched_get_fh(self):
    with _opens_lock:
        _opens[0] += 1
    ctl = getattr(_tls, "ctl", None)
    if ctl is None:
        return _orig_get_fh(self)
    rid = _tls.rid
    ctl.before(rid, "open")
    try:
        inner = _orig_get_fh(self)
    except BaseException:
        ctl.after(rid, "open")
        raise
    return _FhProxy(inner, ctl, rid)


def install():
    """Wrap BasebandReader._get_fh (external instrumentation, nothing in /repo changes)."""
    global _orig_get_fh
    if _orig_get_fh is None:
        _orig_get_fh = pbr.BasebandReader._get_fh
        pbr.BasebandReader._get_fh = _patched_get_fh


def uninstall():
    global _orig_get_fh
    if _orig_get_fh is not None:
        pbr.BasebandReader._get_fh = _orig_get_fh
        _orig_get_fh = None


def opens():
    return _opens[0]


def run_schedule(reader, args, procs):
    """args: [(o, n), ...] for reads 1..k; procs: the TLC schedule as the sequence of read numbers.
    -> (results, error): results[r-1] = ("ok", Signal) | ("exc", name); error = None or text."""
    seen = {}
    sched = []
    for p in procs:
        sched.append((p, STEPS[seen.get(p, 0)]))
        seen[p] = seen.get(p, 0) + 1
    ctl = Controller(sched)
    res = [None] * len(args)

    def work(rid, o, n):
        _tls.ctl, _tls.rid = ctl, rid
        try:
            res[rid - 1] = ("ok", reader.read(o, n))
        except ScheduleError as e:
            res[rid - 1] = ("sched", str(e))
        except Exception as e:  # noqa
            res[rid - 1] = ("exc", status_of(e) + ": " + str(e)[:200])
            if any(p == rid for p, _ in sched):     # a refusal happens before any file step
                ctl.fail("read %d raised %s: %s" % (rid, type(e).__name__, str(e)[:200]))
        finally:
            _tls.ctl = None

    th = [threading.Thread(target=work, args=(i + 1, a[0], a[1]), daemon=True) for i, a in enumerate(args)]
    for t in th:
        t.start()
    for t in th:
        t.join(ctl.timeout + 10)
    err = ctl.failed
    if err is None and ctl.log != sched:
        err = "executed steps %r differ from the schedule %r" % (ctl.log, sched)
    if any(t.is_alive() for t in th):
        err = err or "a reading thread did not finish"
    return res, err


# ------------------------------------------------------------------ exact times
def days(t):
    return Fraction(float(t.jd1)) + Fraction(float(t.jd2))


def seconds_between(t, t0):
    """elapsed SI seconds t - t0 as astropy defines them (scale conversions, leap seconds), exactly
    as held by the TimeDelta (two doubles)"""
    td = t - t0
    return (Fraction(float(td.jd1)) + Fraction(float(td.jd2))) * 86400


def hz(q):
    return Fraction(float(q.to_value(u.Hz))) if q.unit != u.MHz else Fraction(float(q.value)) * 10 ** 6


# ------------------------------------------------------------------ events for Trace_Reader
def read_event(fsx, o, n, out, *, eid, how="eager", flags=None, with_direct=None, max_elems=4096):
    """out: ("ok", Signal) | ("exc", text).  One 'read' event."""
    r = fsx.reader
    ev = {"id": eid, "ev": "read", "f": fsx.F(), "key": fsx.key, "mode": fsx.mode, "md": fsx.md, "o": int(o), "n": int(n),
          "how": how, "flags": dict(flags or {})}
    if out[0] != "ok":
        ev.update(st=out[1].split(":")[0], len=0, shape=[], codes=[], raw=[], dt=exact.rat(0), rate=exact.rat(1))
        return ev
    z = out[1]
    d = np.asarray(z.data)
    ev.update(st="ok", len=int(len(z)), shape=[int(x) for x in d.shape],
              dt=exact.rat(seconds_between(z.start_time, r.start_time)), rate=exact.rat(hz(z.sample_rate)))
    ev["flags"]["start_is_time_at"] = bool(z.start_time.jd1 == r.time_at(o).jd1 and z.start_time.jd2 == r.time_at(o).jd2)
    ev["flags"]["dtype"] = bool(d.dtype == r.dtype and d.dtype == (np.float32 if fsx.kind == "stokes" else np.complex64))
    if d.size > max_elems:
        raise ValueError("event too large")
    if fsx.mode == "ramp":
        ev["codes"] = fsx.ramp_codes(d)
        ev["raw"] = []
    else:
        try:
            raw = with_direct if with_direct is not None else fsx.direct(2 * o if fsx.real else o, 2 * n if fsx.real else n)
            ev["raw"] = fsx.value_codes(raw)
        except Exception:  # noqa   (a request outside the stream: the specification expects a refusal anyway)
            ev["raw"] = []
        ev["codes"] = fsx.real_value_codes(d) if fsx.real else fsx.value_codes(d)
    return ev


def expected_post(fsx, raw):
    """Python mirror of the post-processing, used only for the bitwise 'equals
    the direct baseband read' flag on large reads (the deciding comparison of
    small reads is done by Trace_Reader)."""
    z = raw
    if fsx.real:
        z = pb.utils.real_to_complex(z, axis=0)
    if fsx.kind != "stokes":
        m = np.array(fsx.mask, dtype=bool)
        z = np.where(m[None], z.conj(), z)
    if fsx.kind == "stokes" and fsx.lsb:
        z = z[:, :, ::-1]
    if fsx.kind != "plain":
        z = z.transpose(0, 2, 1)
    return z.astype(np.float32 if fsx.kind == "stokes" else np.complex64)


# ------------------------------------------------------------------ TLC launches (memory: at most 8 JVMs of 2 GB at a time)
TLC_SLOTS = threading.BoundedSemaphore(8)


def tlc_run(module, cfg, **kw):
    kw.setdefault("heap", "2g")
    with TLC_SLOTS:
        return tlc.run(module, cfg, **kw)


# ------------------------------------------------------------------ parallel trace validation
def validate(module, events, chk, batch=400, jobs=6, timeout=600, name=None, env=None, cfg=None):
    """Like trace_util.validate, but the batches run as concurrent TLC processes
    (one worker each).  -> (rejected [(event, failed clauses)], nvalidated)"""
    scr = os.path.join(framework.ROOT, ".scratch")
    os.makedirs(scr, exist_ok=True)
    parts = [events[i:i + batch] for i in range(0, len(events), batch)]

    def one(ix):
        part = parts[ix]
        tf = os.path.join(scr, "%s_%d_%s_%d.trace.json" % (module, os.getpid(), name or "t", ix))
        vf = tf.replace(".trace.json", ".verdict.ndjson")
        with open(tf, "w") as f:
            json.dump(part, f)
        if os.path.exists(vf):
            os.remove(vf)
        e = {"TRACE_FILE": tf, "VERDICT_FILE": vf, "_JAVA_OPTIONS": "-XX:ParallelGCThreads=2"}
        e.update(env or {})
        r = tlc_run(module, cfg or module + ".cfg", workers=1, env=e, timeout=timeout, heap="2g")
        rej, summary = [], None
        if os.path.exists(vf):
            with open(vf) as f:
                lines = f.read().splitlines()
            for line in lines:
                line = line.strip()
                if not line:
                    continue
                v = json.loads(line)
                if isinstance(v, str):
                    v = json.loads(v)
                if v.get("summary"):
                    summary = v
                else:
                    rej.append((part[v["line"] - 1], v["failed"]))
        if not r.ok or summary is None or summary["events"] != len(part):
            raise tlc.TLCError("trace validation did not consume the whole trace (%s):\n%s" % (module, r.stdout[-3000:]))
        os.remove(tf)
        if os.path.exists(vf):
            os.remove(vf)
        return r, rej

    rejected, done = [], 0
    with cf.ThreadPoolExecutor(max_workers=jobs) as ex:
        for ix, (r, rej) in enumerate(ex.map(one, range(len(parts)))):
            chk.add_tlc("trace:%s[%d]" % (name or module, ix), r)
            rejected += rej
            done += len(parts[ix])
    return rejected, done
