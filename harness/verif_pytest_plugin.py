"""pytest plugin (-p verif_pytest_plugin): runs the repository's own tests under the
external tracer and writes the recorded events to $PULSARBAT_VERIF_TRACE_OUT."""
import os
import sys

sys.path.insert(0, os.path.dirname(os.path.abspath(__file__)))


def pytest_configure(config):
    if os.environ.get("PULSARBAT_VERIF_TRACE") == "1":
        import tracer
        tracer.install()


def pytest_unconfigure(config):
    out = os.environ.get("PULSARBAT_VERIF_TRACE_OUT")
    if out and os.environ.get("PULSARBAT_VERIF_TRACE") == "1":
        import tracer
        tracer.dump(out)
