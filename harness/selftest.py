"""./check --selftest : sensitivity of the machinery itself (DESIGN.md §7).

* spec level: every negative configuration (model of the pre-fix / wrong algorithm) must be
  rejected by TLC with the expected invariant;
* trace level: an accepted trace with ONE corrupted field must be rejected at that event and
  only there.
Not part of any property's exit status."""
import copy
import random
import sys
from fractions import Fraction

import tlc
import trace_util
import exact

NEG = [("MC_Pipeline", "Neg_Pipeline_pinned.cfg", "ChkOK"),
       ("MC_Pipeline", "Neg_Pipeline_labels_strict.cfg", "LabelsKeptStrict"),
       ("Alias", "Neg_Alias_istft.cfg", "Frame")]


def main():
    bad = 0
    import glob
    import os
    for mod, cfg, inv in NEG:
        r = tlc.run(mod, cfg, timeout=900)
        ok = r.violation == inv
        print("neg-config %-36s expected %-18s got %-18s %s" % (cfg, inv, r.violation, "ok" if ok else "FAILED"))
        bad += not ok
    # trace level: Trace_Slice
    import c01
    ev = c01.big_slice_events(random.Random(5), 80)
    slim = [{k: v for k, v in e.items() if not k.startswith("_")} for e in ev]
    rej, _ = trace_util.validate("Trace_Slice", slim)
    print("trace Trace_Slice clean: %d rejected %s" % (len(rej), "ok" if not rej else "FAILED"))
    bad += bool(rej)
    i1 = next(i for i, e in enumerate(slim) if e["hasT1"] and exact.unbig(e["n1"]) > 0)
    c = copy.deepcopy(slim)
    r1 = exact.unrat(c[i1]["rate1"])
    c[i1]["t1"] = exact.rat(exact.unrat(c[i1]["t1"]) + Fraction(1) / r1 / 86400)     # one sample late
    i2 = next(i for i, e in enumerate(slim) if i != i1 and exact.unbig(e["n1"]) > 3)
    c[i2]["n1"] = exact.big(exact.unbig(c[i2]["n1"]) + 1)
    rej, _ = trace_util.validate("Trace_Slice", c)
    got = sorted(e["id"] for e, _ in rej)
    ok = got == sorted([slim[i1]["id"], slim[i2]["id"]])
    print("trace Trace_Slice corrupted events %s rejected %s %s" % ([i1, i2], got, "ok" if ok else "FAILED"))
    bad += not ok
    # trace level: Trace_Alias
    import c14
    import pipeline_replay as pr
    cases = [{"root": {"kind": "dp", "contig": True, "buf": 1},
              "hist": [{"op": "time_slice", "arg": 1}, {"op": "stft", "arg": 2}, {"op": "inplace_mul", "arg": 1}]}]
    evs = c14.replay_behaviour(cases[0], random.Random(1), 0)
    slim = [{k: v for k, v in e.items() if k not in ("case", "raised")} for e in evs]
    rej, _ = trace_util.validate("Trace_Alias", slim)
    print("trace Trace_Alias clean: %d rejected %s" % (len(rej), "ok" if not rej else "FAILED"))
    bad += bool(rej)
    c = copy.deepcopy(slim)
    c[1]["post"][0]["h"] = "deadbeef"
    rej, _ = trace_util.validate("Trace_Alias", c)
    ok = [e["id"] for e, _ in rej] == [c[1]["id"]]
    print("trace Trace_Alias corrupted hash rejected %s %s" % ([e["id"] for e, _ in rej], "ok" if ok else "FAILED"))
    bad += not ok
    print("selftest:", "OK" if not bad else "%d FAILED" % bad)
    return 0 if not bad else 2


if __name__ == "__main__":
    sys.exit(main())
