"""Self-test of the TLA+ numeric kernel: Python generates vectors with
fractions / big-int arithmetic, TLC evaluates the kernel on them."""
import json
import math
import os
import random
import sys
from fractions import Fraction

sys.path.insert(0, os.path.dirname(os.path.abspath(__file__)))
import exact  # noqa: E402
import tlc  # noqa: E402


def pi_bits(P):
    def arctan_inv(x):
        one = 1 << P
        total, term, n, sign = 0, one // x, 1, 1
        while term:
            total += sign * (term // n)
            term //= x * x
            n += 2
            sign = -sign
        return total
    return 4 * (4 * arctan_inv(5) - arctan_inv(239))


def cos_sin_ref(fr, P=220):
    """cos, sin of 2*pi*fr to ~200 bits by Taylor on big ints; returns Fractions."""
    fr = fr - math.floor(fr)
    pi = pi_bits(P)
    x = (2 * pi * fr.numerator) // fr.denominator      # angle * 2^P
    # reduce: use sin/cos Taylor directly (x < 2pi; need many terms) - fine
    one = 1 << P
    s, c = 0, 0
    term = one
    n = 0
    while True:
        if n % 2 == 0:
            c += term if (n // 2) % 2 == 0 else -term
        else:
            s += term if (n // 2) % 2 == 0 else -term
        n += 1
        term = (term * x // one) // n
        if term == 0:
            break
    return Fraction(c, one), Fraction(s, one)


def main(seed=0, n=300):
    rnd = random.Random(seed)
    bigs, rats, trigs = [], [], []

    def rbig():
        k = rnd.choice([0, 1, 5, 14, 15, 16, 29, 30, 31, 45, 52, 53, 60, 64, 100, 200])
        v = rnd.getrandbits(k) if k else 0
        if rnd.random() < 0.15:
            v = rnd.choice([0, 1, 32767, 32768, 32769, 2**30 - 1, 2**30, 2**31 - 1, 2**31, 2**52, 2**62])
        return -v if rnd.random() < 0.5 else v

    for _ in range(n):
        a, b = rbig(), rbig()
        k = rnd.randrange(0, 70)
        t = {"a": exact.big(a), "b": exact.big(b), "add": exact.big(a + b),
             "sub": exact.big(a - b), "mul": exact.big(a * b),
             "cmp": (a > b) - (a < b), "k": k,
             "shl": exact.big(a << k), "shr": exact.big(a >> k),
             "fdiv": exact.big(0), "mod": exact.big(0)}
        if b > 0:
            t["fdiv"], t["mod"] = exact.big(a // b), exact.big(a % b)
        bigs.append(t)
    for _ in range(n):
        a = Fraction(rbig(), abs(rbig()) + 1)
        b = Fraction(rbig(), abs(rbig()) + 1)
        if rnd.random() < 0.3:
            a = Fraction(rnd.randrange(-9, 10) * 2 + 1, 2)   # exact ties for round
        s, m = a + b, a * b
        rats.append({"ap": exact.big(a.numerator), "aq": exact.big(a.denominator),
                     "bp": exact.big(b.numerator), "bq": exact.big(b.denominator),
                     "sp": exact.big(s.numerator), "sq": exact.big(s.denominator),
                     "mp": exact.big(m.numerator), "mq": exact.big(m.denominator),
                     "floor": exact.big(math.floor(a)), "ceil": exact.big(math.ceil(a)),
                     "round": exact.big(round(a)), "cmp": (a > b) - (a < b)})
    for _ in range(n // 2):
        q = rnd.choice([1, 2, 3, 4, 5, 7, 8, 12, 16, 24, 1000, 1023, 4096, 10**9 + 7, 2**40, 2**70 + 1])
        p = rnd.randrange(-4 * q, 4 * q + 1)
        c, s = cos_sin_ref(Fraction(p, q))
        trigs.append({"p": exact.big(p), "q": exact.big(q), "c": exact.fix(c), "s": exact.fix(s)})
    # cross-check the reference itself against libm
    for t in trigs[:50]:
        fr = Fraction(exact.unbig(t["p"]), exact.unbig(t["q"]))
        assert abs(float(exact.unfix(t["c"])) - math.cos(2 * math.pi * float(fr - math.floor(fr)))) < 1e-14
    scratch = os.path.join(os.path.dirname(tlc.SPEC), ".scratch")
    os.makedirs(scratch, exist_ok=True)
    vec = os.path.join(scratch, "kernel_vectors.json")
    with open(vec, "w") as f:
        json.dump({"big": bigs, "rat": rats, "trig": trigs}, f)
    cfgp = os.path.join(tlc.SPEC, "kernel", "KernelTest.cfg")
    r = tlc.run(os.path.join("kernel", "KernelTest.tla"), cfgp, workers=1,
                env={"KERNEL_VECTORS": vec}, timeout=600)
    ok = '"KERNEL"' in r.stdout and ", {}, TRUE" in r.stdout
    print("kernel self-test:", "OK" if ok else "FAILED", "(%d big, %d rat, %d trig vectors, %.1fs)"
          % (len(bigs), len(rats), len(trigs), r.wall))
    if not ok:
        print(r.stdout[-3000:])
    return 0 if ok else 2


if __name__ == "__main__":
    sys.exit(main())
