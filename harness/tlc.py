"""Run TLC (model checking, simulation, trace validation) and parse its output."""
import json
import os
import re
import shutil
import subprocess
import tempfile
import time

SPEC = os.path.join(os.path.dirname(os.path.dirname(os.path.abspath(__file__))), "spec")
JAR = "/opt/veriftools/tla/tla2tools.jar:/opt/veriftools/tla/CommunityModules-deps.jar"


class TLCError(RuntimeError):
    """Machinery failure (not a property violation)."""


class TLCResult:
    def __init__(self):
        self.stdout = ""
        self.states = 0          # states generated
        self.distinct = 0
        self.depth = 0
        self.ok = False          # finished without error / violation
        self.violation = None    # name of violated invariant / property
        self.error = None        # other error text
        self.prints = []         # parsed PrintT payloads (python objects or raw strings)
        self.coverage = {}       # action -> (distinct, total)
        self.wall = 0.0
        self.cmd = ""


_TUPLE_RE = re.compile(r'^<<.*>>$')


def _scratch():
    base = os.environ.get("VERIF_SCRATCH") or os.path.join(
        os.path.dirname(SPEC), ".scratch")
    os.makedirs(base, exist_ok=True)
    return tempfile.mkdtemp(prefix="tlc-", dir=base)


def run(module, cfg=None, *, workers=16, simulate=None, depth=None, seed=None,
        env=None, timeout=3600, coverage=False, extra=(), heap="8g",
        deadlock=True, stack="64m", dfs=False):
    """Run TLC on spec/<module>.tla with spec/<cfg> (default <module>.cfg).

    Returns a TLCResult.  Raises TLCError only for machinery problems
    (parse errors, timeouts, crashes).
    """
    tla = module if module.endswith(".tla") else module + ".tla"
    cfg = cfg or (os.path.splitext(tla)[0] + ".cfg")
    meta = _scratch()
    jopts = ["-XX:+UseParallelGC", "-Xmx" + heap, "-Xss" + stack,
             "-DTLA-Library=" + os.pathsep.join(
                 [SPEC, os.path.join(SPEC, "kernel")])]
    if dfs:
        jopts.append("-Dtlc2.tool.queue.IStateQueue=StateDeque")
    cmd = ["java"] + jopts + ["-cp", JAR, "tlc2.TLC", "-metadir", meta,
                              "-noGenerateSpecTE", "-config", cfg]
    if simulate is not None:
        cmd += ["-simulate", "num=%d" % simulate]
        if depth:
            cmd += ["-depth", str(depth)]
    if seed is not None:
        cmd += ["-seed", str(seed)]
    if not deadlock:
        cmd += ["-deadlock"]
    if coverage:
        cmd += ["-coverage", "1"]
    cmd += ["-workers", str(workers)]
    cmd += list(extra)
    cmd += [tla]
    e = dict(os.environ)
    e.pop("JAVA_TOOL_OPTIONS", None)
    if env:
        e.update({k: str(v) for k, v in env.items()})
    r = TLCResult()
    r.cmd = " ".join(cmd)
    t0 = time.time()
    try:
        p = subprocess.run(cmd, cwd=SPEC, env=e, stdout=subprocess.PIPE,
                           stderr=subprocess.STDOUT, timeout=timeout, text=True)
    except subprocess.TimeoutExpired as ex:
        shutil.rmtree(meta, ignore_errors=True)
        raise TLCError("TLC timeout after %ss: %s" % (timeout, r.cmd)) from ex
    finally:
        r.wall = time.time() - t0
    shutil.rmtree(meta, ignore_errors=True)
    r.stdout = p.stdout
    _parse(r)
    if r.error and r.violation is None:
        raise TLCError("TLC failed (%s):\n%s" % (r.cmd, r.stdout[-6000:]))
    return r


def _parse(r):
    out = r.stdout
    for line in out.splitlines():
        s = line.strip()
        if s.startswith("@@"):
            # marker lines printed by specs: @@TAG json
            tag, _, payload = s[2:].partition(" ")
            try:
                r.prints.append((tag, json.loads(payload)))
            except ValueError:
                r.prints.append((tag, payload))
        elif s.startswith('"@@'):
            # PrintT of a string: quoted
            try:
                inner = json.loads(s)
                tag, _, payload = inner[2:].partition(" ")
                try:
                    r.prints.append((tag, json.loads(payload)))
                except ValueError:
                    r.prints.append((tag, payload))
            except ValueError:
                pass
    m = re.search(r"(\d+) states generated, (\d+) distinct states found", out)
    if m:
        r.states, r.distinct = int(m.group(1)), int(m.group(2))
    m = re.search(r"The depth of the complete state graph search is (\d+)", out)
    if m:
        r.depth = int(m.group(1))
    m = re.search(r"Invariant (\S+) is violated", out)
    if m:
        r.violation = m.group(1)
    m = re.search(r"Action property (\S+) is violated", out)
    if m:
        r.violation = m.group(1)
    if "Temporal properties were violated" in out:
        r.violation = r.violation or "temporal"
    m = re.search(r"Error: The postcondition (\S+)?", out)
    if "Error:" in out and r.violation is None:
        if "Assumption" in out and "is false" in out:
            r.error = "assumption false"
        elif "Deadlock reached" in out:
            r.violation = "Deadlock"
        else:
            r.error = out[out.index("Error:"):][:2000]
    if ("Model checking completed. No error has been found" in out
            or "Finished in" in out and "Error" not in out):
        r.ok = r.violation is None and r.error is None
    for m in re.finditer(r"<(\w+) line \d+, col \d+ to line \d+, col \d+ of module (\w+)>: (\d+):(\d+)", out):
        r.coverage[m.group(1)] = (int(m.group(3)), int(m.group(4)))


def sany(path):
    p = subprocess.run(["java", "-DTLA-Library=" + os.pathsep.join([SPEC, os.path.join(SPEC, "kernel")]),
                        "-cp", JAR, "tla2sany.SANY", path], cwd=os.path.dirname(path) or ".",
                       stdout=subprocess.PIPE, stderr=subprocess.STDOUT, text=True)
    ok = p.returncode == 0 and "Semantic errors" not in p.stdout and "*** Errors" not in p.stdout \
        and "Fatal errors" not in p.stdout and "Could not find module" not in p.stdout
    return ok, p.stdout
