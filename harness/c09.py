"""C09 - Dask-backed signals give identical results, lazily, for any chunks or
scheduler (spec/Dask.tla, spec/DaskSteps.tla, spec/Trace_Dask.tla).

1. MC: TLC checks the Dask specification (graph rules of every operation,
   every chunk grid, every order of task execution) and must reject four
   wrong models (Neg_Dask_*.cfg).
2. Gen -> code: pipelines, chunk layouts and schedules printed by TLC are
   replayed on real Dask arrays built from sentinel inputs (dask_replay.py).
3. code -> Trace: every public call made by the replays, by seeded drivers on
   larger signals / readers (dask_driver.py) and by the repository's own tests
   under an external tracer (dask_tracer.py) is judged by spec/Trace_Dask.tla.
"""
import json
import os
import random
import subprocess
import sys
import time
from concurrent.futures import ThreadPoolExecutor

import tlc
import framework
import trace_util

PID = "C09"
HEAP = "2g"       # at most 8 TLC JVMs at a time (the thread pool below), 2 GB each
SCR = os.path.join(framework.ROOT, ".scratch")
REPO = os.environ.get("VERIF_REPO", "/repo")
TEST_FILES = ["tests/test_signal.py", "tests/test_transforms.py", "tests/test_dedispersion.py",
              "tests/test_polarization.py", "tests/test_contrib.py", "tests/test_radio_signal.py",
              "tests/test_readers.py", "tests/test_baseband_readers.py"]
NEG = [("Neg_Dask_chirpkey.cfg", "OrderIndependent"), ("Neg_Dask_nofftcheck.cfg", "SameAsNumpy"),
       ("Neg_Dask_eager.cfg", "Lazy"), ("Neg_Dask_numpy.cfg", "StaysDask"),
       ("Neg_Dask_readerblocks.cfg", "SameAsNumpy"), ("Neg_Dask_overwrite.cfg", "InputsStable"),
       ("Neg_Dask_overwrite2.cfg", "SameAsNumpy"), ("Neg_Dask_stickykw.cfg", "SameAsNumpy"),
       ("Neg_Dask_setitemlost.cfg", "SameAsNumpy"), ("Neg_Dask_sharedhandle.cfg", "OrderIndependent"),
       ("Neg_Dask_roll.cfg", "SameAsNumpy")]


def _load(path):
    cases = []
    with open(path) as f:
        for line in f:
            line = line.strip()
            if not line:
                continue
            c = json.loads(line)
            if isinstance(c, str):
                c = json.loads(c)
            cases.append(c)
    return cases


def _gen(name, cfg, workers, timeout):
    os.makedirs(SCR, exist_ok=True)
    out = os.path.join(SCR, "C09_%s_%d.ndjson" % (name, os.getpid()))
    if os.path.exists(out):
        os.remove(out)
    r = tlc.run("Gen_Dask", cfg, env={"GEN_OUT": out}, workers=workers, timeout=timeout, heap=HEAP)
    return r, out


def _stratify(cases, limit, rnd, key):
    if len(cases) <= limit:
        return list(cases)
    by = {}
    for c in cases:
        by.setdefault(key(c), []).append(c)
    per = max(1, limit // len(by))
    out = []
    for k in sorted(by):
        out += by[k] if len(by[k]) <= per else rnd.sample(by[k], per)
    return out


def _opkey(c):
    # the operations and where the runs (looks) fall between them; the kind of look is drawn at random
    return "/".join("R" if s["kind"] == "run" else s["op"] for s in c["hist"][-4:]) + ("!" if c["st"] == "err" else "")


def _start_tests(thorough, out):
    env = dict(os.environ)
    env["C09_TRACE_OUT"] = out
    env["PYTHONPATH"] = os.pathsep.join([os.path.dirname(os.path.abspath(__file__)), REPO])
    cmd = [sys.executable, "-W", "ignore", "-m", "pytest", "-q", "-p", "no:cacheprovider", "-p", "dask_tracer",
           "--timeout=900"] + TEST_FILES
    if not thorough:
        cmd += ["-k", "True or dask or Dask or ufunc or to_dask"]
    return subprocess.Popen(cmd, cwd=REPO, env=env, stdout=subprocess.PIPE, stderr=subprocess.STDOUT, text=True)


def run(chk):
    import dask_sched as ds
    import dask_replay as dr
    import dask_driver as dd
    thorough = chk.tier == "thorough"
    rnd = random.Random(chk.seed)
    ds.install_task_counter()
    t_start = time.time()
    W = 6 if thorough else 4
    pool = ThreadPoolExecutor(8)
    # ------------------------------------------------------------ start TLC and the traced test-suite
    sched_f = pool.submit(_gen, "sched", "Gen_Dask_sched.cfg", W, 900)
    d1_f = pool.submit(_gen, "d1", "Gen_Dask_d1.cfg" if thorough else "Gen_Dask_d1_quick.cfg", W, 1500)
    d2_f = pool.submit(_gen, "d2", "Gen_Dask_d2.cfg" if thorough else "Gen_Dask_d2_quick.cfg", W, 1500)
    d2r_f = pool.submit(_gen, "d2r", "Gen_Dask_d2r.cfg", W, 1500)      # runs in the middle of a pipeline
    tests_out = os.path.join(SCR, "C09_tests_%d.json" % os.getpid())
    tests_p = _start_tests(thorough, tests_out)
    mcs = ([("MC_Dask_full", "MC_Dask_full.cfg"), ("MC_Dask_full_d1", "MC_Dask_full_d1.cfg"),
            ("MC_Dask_runs_full", "MC_Dask_runs_full.cfg"), ("MC_Dask_sched_full", "MC_Dask_sched_full.cfg")]
           if thorough else
           [("MC_Dask_quick", "MC_Dask_quick.cfg"), ("MC_Dask_runs_quick", "MC_Dask_runs_quick.cfg"),
            ("MC_Dask_sched_quick", "MC_Dask_sched_quick.cfg")])
    mc_f = [(n, pool.submit(tlc.run, "MC_Dask", c, workers=W, timeout=2400 if thorough else 900, heap=HEAP)) for n, c in mcs]
    neg_f = [(c, inv, pool.submit(tlc.run, "MC_Dask", c, workers=2, timeout=600, heap="1g")) for c, inv in NEG]

    viol = []          # (key, desc, case)
    events = []        # for Trace_Dask, each with "src"
    notes = {}
    ambiguous = 0

    def absorb(res, src):
        nonlocal ambiguous
        for k, d in res.viol:
            viol.append((k, d, src))
        for e in res.events:
            e["src"] = src
            events.append(e)
        for k, v in res.notes.items():
            notes[k] = notes.get(k, 0) + v
        ambiguous += res.ambiguous

    # ------------------------------------------------------------ schedules generated by TLC
    r, path = sched_f.result()
    chk.add_tlc("gen:sched", r)
    if not r.ok:
        chk.machinery_errors.append("generation of schedules failed: %s" % r.stdout[-2000:])
    sched_cases = _load(path)
    os.remove(path)
    groups = {}
    for c in sched_cases:
        h = c["hist"]
        if h[-1].get("sch") != "any":
            continue
        key = json.dumps([c["root"], [(s["op"], s["a"]) for s in h[:-1]]], sort_keys=True)
        groups.setdefault(key, []).append(c)
    pool_sched = sorted({tuple(c["hist"][-1]["choices"]) for c in sched_cases if c["hist"][-1].get("choices")})
    rnd.shuffle(pool_sched)
    notes["tlc_schedules_generated"] = len(pool_sched)
    per_group = 60 if thorough else 8
    nsched = 0
    for gi, key in enumerate(sorted(groups)):
        g = groups[key]
        pick = g if len(g) <= per_group else rnd.sample(g, per_group)
        base = dict(pick[0])
        base["hist"] = pick[0]["hist"][:-1]
        finals = ["synchronous"] + [["forced", list(c["hist"][-1]["choices"])] for c in pick]
        src = {"kind": "gen", "case": base, "variant": gi, "seed": chk.seed, "final": finals}
        absorb(dr.replay(base, variant=gi, seed=chk.seed, final_schedulers=finals), src)
        nsched += len(pick)
        chk.validated += len(pick)
        if gi < 2:
            chk.sample({"root": base["root"], "ops": [(s["op"], s["a"]) for s in base["hist"]],
                        "tlc_schedule_choice_indices": finals[1][1], "orders_replayed": len(pick)})
    notes["forced_schedules_replayed"] = nsched
    walls = {"schedules": round(time.time() - t_start, 1)}

    def a_schedule(i):
        return ["forced", list(pool_sched[i % len(pool_sched)])] if pool_sched else "synchronous"

    # ------------------------------------------------------------ drivers (larger signals, readers)
    out = dr.Result()
    nd = 1500 if thorough else 220
    drv_seed = chk.seed * 7919 + 1
    drnd = random.Random(drv_seed)
    scheds = ["synchronous", "threads", a_schedule(1), a_schedule(2), "synchronous", a_schedule(3)]
    dd.run_driver(nd, drnd, scheds, out)
    dd.run_fft_family(nd // 4, drnd, scheds, out)
    dd.run_dm_sessions(drnd, out)
    dd.run_binary(nd // 6, drnd, out)
    dd.run_concat(nd // 6, drnd, out)
    dd.run_histories(nd // 4, drnd, out)
    dd.run_transform_calls(nd // 6, drnd, out)
    dd.run_readers(drnd, out, REPO, nreads=12 if thorough else 4)
    absorb(out, {"kind": "driver", "seed": drv_seed, "n": nd, "thorough": thorough})
    chk.validated += nd + 2 * (nd // 6)
    walls["drivers"] = round(time.time() - t_start, 1)

    # ------------------------------------------------------------ pipelines generated by TLC
    cases = []
    for name, fut, limit in (("d1", d1_f, 9000 if thorough else 500), ("d2", d2_f, 8000 if thorough else 500),
                             ("d2r", d2r_f, 2000 if thorough else 350)):
        r, path = fut.result()
        chk.add_tlc("gen:" + name, r)
        if not r.ok:
            chk.machinery_errors.append("generation %s failed: %s" % (name, r.stdout[-2000:]))
        allc = _load(path)
        os.remove(path)
        notes["generated_" + name] = len(allc)
        cases += _stratify(allc, limit, rnd, _opkey)
    nproc = 40 if thorough else 6
    opcount = {}
    skipped = 0
    for i, case in enumerate(cases):
        finals = ["synchronous", "threads" if i % 3 == 0 else a_schedule(i)]
        if i % max(1, len(cases) // nproc) == 0:
            finals.append("processes")
        variant = i
        src = {"kind": "gen", "case": case, "variant": variant, "seed": chk.seed, "final": finals}
        res = dr.replay(case, variant=variant, seed=chk.seed, final_schedulers=finals,
                        schedulers=("synchronous", "threads", a_schedule(i + 1)))
        absorb(res, src)
        skipped += res.skipped
        chk.validated += 0 if res.skipped else 1
        for s in case["hist"]:
            opcount[s["op"]] = opcount.get(s["op"], 0) + 1
        if 2 <= i < 5:
            chk.sample({"root": case["root"], "ops": [(s["op"], s["a"], "refused" if s["refused"] else s["post"]["ch"])
                                                      for s in case["hist"]], "final_schedulers": finals})
    dr.shutdown_pool()
    walls["pipelines"] = round(time.time() - t_start, 1)
    notes["replayed_ops_by_kind"] = opcount
    notes["skipped_unrealisable"] = skipped

    # ------------------------------------------------------------ the repository's tests under the tracer
    try:
        tout, _ = tests_p.communicate(timeout=900)
    except subprocess.TimeoutExpired:
        tests_p.kill()
        tout = "timeout"
    tev = []
    if os.path.exists(tests_out):
        tev = json.load(open(tests_out))
        os.remove(tests_out)
    if not tev:
        chk.machinery_errors.append("traced test-suite produced no events:\n%s" % str(tout)[-1500:])
    for e in tev:
        e["src"] = {"kind": "tests"}
    events += tev
    notes["events_from_repository_tests"] = len(tev)
    walls["tests"] = round(time.time() - t_start, 1)

    # ------------------------------------------------------------ TLC judges every event
    for i, e in enumerate(events):
        e["id"] = i
    slim = [{k: v for k, v in e.items() if k != "src"} for e in events]
    rejected, n = trace_util.validate("Trace_Dask", slim, batch=6000, chk=chk, name="Trace_Dask", timeout=1200, heap=HEAP)
    chk.validated += n
    walls["trace"] = round(time.time() - t_start, 1)
    notes["trace_events"] = n
    by_ev = {}
    for e in events:
        k = "%s/%s/%s" % (e["ev"], e["kind"], e["pre"]["back"])
        by_ev[k] = by_ev.get(k, 0) + 1
    notes["trace_events_by_call"] = by_ev
    for e, failed in rejected:
        src = events[e["id"]]["src"]
        for clause in failed:
            viol.append(("trace:%s:%s" % (clause, e["ev"]),
                         "%s(%s) pre %s -> post %s, input-graph executions %d -> %d, refused=%s"
                         % (e["ev"], e["kind"], {k: e["pre"][k] for k in ("cls", "sh", "back", "ch")},
                            {k: e["post"][k] for k in ("cls", "sh", "back", "ch")}, e["n0"], e["n1"], e["refused"]),
                         {"kind": "event", "event": e, "src": src}))
    for e in events[:2]:
        chk.sample({k: e[k] for k in ("ev", "kind", "refused", "pre", "post", "n0", "n1")})

    # ------------------------------------------------------------ model checking results
    for name, f in mc_f:
        chk.mc_must_hold(name, f.result())
    chk.exhaustive = all(f.result().ok for _, f in mc_f)
    for cfg, inv, f in neg_f:
        r = f.result()
        chk.add_tlc("neg:" + cfg, r)
        if r.violation != inv:
            chk.machinery_errors.append("negative model %s was expected to violate %s, TLC says %r" % (cfg, inv, r.violation))
    notes["negative_models_rejected"] = {c: f.result().violation for c, _, f in neg_f}
    walls["mc"] = round(time.time() - t_start, 1)
    notes["wall_s_cumulative"] = walls

    for k, d, case in viol:
        chk.violation(k, d, case)
    notes["ambiguous"] = ambiguous
    notes.update({"fft_" + k.split("fft_")[-1]: v for k, v in dr.STATS.items()})
    notes["fft_tolerance_relative"] = dr.FFT_TOL
    chk.notes.update(notes)
    chk.assumptions += [
        "TLC explores spec/Dask.tla exhaustively only within the stated constants (shapes, chunk grids, depth, <= 12 tasks)",
        "a task is atomic in the model: interleavings inside one NumPy / SciPy call are not modelled",
        "the sentinel counter sees executions in this process only (not inside 'processes' workers; graph construction always happens here)",
        "abstraction: harness/dask_replay.py (summary, metadata interning) and harness/dask_tracer.py",
        "Dask's schedulers, NumPy and SciPy are trusted libraries; forced schedules drive dask.local.get_async through its submit interface",
    ]


# ---------------------------------------------------------------------- replay of a recorded violation
def replay(doc):
    import dask_sched as ds
    import dask_replay as dr
    import dask_driver as dd
    ds.install_task_counter()
    c = doc["case"]
    want_key = doc["key"]
    src = c["src"] if c.get("kind") == "event" else c
    res = dr.Result()
    if src["kind"] == "gen":
        res = dr.replay(src["case"], variant=src["variant"], seed=src["seed"],
                        final_schedulers=[tuple(s) if isinstance(s, list) else s for s in src["final"]])
        dr.shutdown_pool()
    elif src["kind"] == "driver":
        drnd = random.Random(src["seed"])
        nd = src["n"]
        dd.run_driver(nd, drnd, ["synchronous", "threads"], res)
        dd.run_fft_family(nd // 4, drnd, ["synchronous", "threads"], res)
        dd.run_dm_sessions(drnd, res)
        dd.run_binary(nd // 6, drnd, res)
        dd.run_concat(nd // 6, drnd, res)
        dd.run_histories(nd // 4, drnd, res)
        dd.run_transform_calls(nd // 6, drnd, res)
        dd.run_readers(drnd, res, REPO, nreads=12 if src.get("thorough") else 4)
    else:
        out = os.path.join(SCR, "C09_tests_replay_%d.json" % os.getpid())
        p = _start_tests(True, out)
        p.communicate()
        res.events = json.load(open(out)) if os.path.exists(out) else []
    found = [(k, d) for k, d in res.viol]
    evs = [{k: v for k, v in e.items() if k != "src"} for e in res.events]
    for i, e in enumerate(evs):
        e["id"] = i
    if evs:
        rejected, _ = trace_util.validate("Trace_Dask", evs, batch=6000, heap=HEAP)
        for e, failed in rejected:
            for clause in failed:
                found.append(("trace:%s:%s" % (clause, e["ev"]), json.dumps({k: e[k] for k in ("pre", "post", "n0", "n1", "refused")})))
    hit = [(k, d) for k, d in found if k == want_key]
    for k, d in hit[:5]:
        print("VIOLATION property=%s replay=(this case)  # %s: %s" % (PID, k, d[:400]))
    if not hit:
        print("case passes (%d other finding(s))" % len(found))
    return 1 if hit else 0
