"""Exact number interchange between Python and the TLA+ kernel (spec/kernel).

BigInt  <-> {"n": bool, "m": [limbs base 2^15, little endian]}
Rat     <-> {"p": BigInt, "q": BigInt}
Fix     <-> BigInt v meaning v / 2**60
doubles  -> exact Fraction (float.as_integer_ratio), never through repr.
"""
from fractions import Fraction
import math

B = 32768
FBITS = 60


def big(v):
    v = int(v)
    neg = v < 0
    v = abs(v)
    m = []
    while v:
        m.append(v & 32767)
        v >>= 15
    return {"n": bool(neg and m), "m": m}


def unbig(d):
    v = 0
    for i, limb in enumerate(d["m"]):
        v += int(limb) << (15 * i)
    return -v if d["n"] else v


def rat(x):
    """Fraction / int / float -> Rat record (exact)."""
    f = frac(x)
    return {"p": big(f.numerator), "q": big(f.denominator)}


def unrat(d):
    return Fraction(unbig(d["p"]), unbig(d["q"]))


def frac(x):
    """Exact Fraction of an int, float (incl. numpy scalar) or Fraction."""
    if isinstance(x, Fraction):
        return x
    if isinstance(x, int):
        return Fraction(x)
    try:
        import numpy as np
        if isinstance(x, np.integer):
            return Fraction(int(x))
        if isinstance(x, np.floating):
            if x.dtype.itemsize > 8:
                # longdouble: go through two doubles exactly
                hi = float(x)
                lo = float(x - type(x)(hi))
                return Fraction(hi) + Fraction(lo)
            return Fraction(float(x))
    except ImportError:
        pass
    return Fraction(x)


def fix(x):
    """Exact value -> Fix (floor(x * 2^60)) as BigInt record."""
    f = frac(x)
    return big((f.numerator << FBITS) // f.denominator)


def unfix(d):
    return Fraction(unbig(d), 1 << FBITS)


def cfix(z):
    z = complex(z)
    return {"re": fix(z.real), "im": fix(z.imag)}


def uncfix(d):
    return complex(float(unfix(d["re"])), float(unfix(d["im"])))


def time_frac_days(t):
    """astropy Time -> exact Fraction of days (jd1 + jd2), scale as held."""
    return Fraction(float(t.jd1)) + Fraction(float(t.jd2))
