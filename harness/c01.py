"""C01 - retained samples keep their absolute timestamps (spec/Pipeline.tla)."""
import os
import random

import tlc
import framework

PID = "C01"
SCR = os.path.join(framework.ROOT, ".scratch")


def gen_cases(chk, name, cfg, **kw):
    os.makedirs(SCR, exist_ok=True)
    out = os.path.join(SCR, "%s_%s_%d.ndjson" % (chk.pid, name, os.getpid()))
    if os.path.exists(out):
        os.remove(out)
    r = tlc.run("Gen_Pipeline", cfg, env={"GEN_OUT": out}, timeout=1800, **kw)
    chk.add_tlc("gen:" + name, r)
    if not r.ok:
        chk.machinery_errors.append("generation %s failed: %s" % (name, r.stdout[-2000:]))
    return out


def run_pipeline(chk, want, quick_cases=1500, full_cases=60000, nconc=(3, 8),
                 mc=("MC_Pipeline_quick.cfg", "MC_Pipeline_full.cfg"),
                 gen_d1="Gen_Pipeline_d1.cfg", gen_sim="Gen_Pipeline_sim.cfg", filt=None):
    import common
    import pipeline_replay as pr
    rnd = random.Random(chk.seed)
    thorough = chk.tier == "thorough"
    # 1. model checking of the specification (all invariants, exhaustive within bounds)
    if mc is not None:
        names = mc[1] if thorough else mc[0]
        for cfgname in ([names] if isinstance(names, str) else list(names)):
            r = tlc.run("MC_Pipeline", cfgname, timeout=3000)
            chk.mc_must_hold(cfgname, r)
            chk.exhaustive = r.ok and (chk.exhaustive or cfgname == ([names] if isinstance(names, str) else list(names))[0])
    # 2. behaviours: every distinct depth-1 outcome + sampled deeper pipelines
    files = [gen_cases(chk, "d1", gen_d1)]
    for i in range(4 if thorough else 1):
        files.append(gen_cases(chk, "sim%d" % i, gen_sim, workers=1))
    cases = []
    for f in files:
        cases += pr.load(f)
        os.remove(f)
    if filt:
        cases = [c for c in cases if filt(c)]
    limit = full_cases if thorough else quick_cases
    if len(cases) > limit:
        # stratified by the kind of the last operation so rare operations are not drowned
        by = {}
        for c in cases:
            by.setdefault(c["hist"][-1]["op"] if c["hist"] else "root", []).append(c)
        per = max(1, limit // len(by))
        cases = []
        for k in sorted(by):
            cases += by[k] if len(by[k]) <= per else rnd.sample(by[k], per)
    # (own generator: the replay of a case must rebuild exactly these concretisations)
    nbase = nconc[1] if thorough else nconc[0]
    concs = common.concs(nbase, random.Random(chk.seed * 7919 + 13))
    concs = concs + common.unit_twins(concs) + common.leap_concs(concs)
    skipped = 0
    ops = {}
    for i, case in enumerate(cases):
        conc = concs[i % len(concs)] if not thorough else None
        for c in ([conc] if conc else rnd.sample(concs, 2)):
            ak = common._ASSIGN_COUNT
            res, skip = pr.replay(case, c, want=want)
            skipped += skip
            chk.validated += 0 if skip else 1
            for o in case["hist"]:
                ops[o["op"]] = ops.get(o["op"], 0) + 1
            for prop, key, desc in res:
                if prop == chk.pid:
                    chk.violation(key, desc, {"kind": "pipeline", "case": case, "conc": c.name, "conc_index": concs.index(c),
                                              "seed": chk.seed, "nconc": nbase, "assign_count": ak})
        if i < 3:
            chk.sample({"root": {k: case["root"][k] for k in ("cls", "len", "hasT", "nchan", "align")},
                        "hist": case["hist"], "expected": {k: case["cur"][k] for k in ("len", "t0", "per", "k0", "stride", "nchan", "clo")}})
    chk.notes["replayed_ops_by_kind"] = ops
    chk.notes["skipped_unrealisable"] = skipped
    chk.notes["concretisations"] = [c.name for c in concs]
    chk.assumptions += ["TLC explores the Pipeline specification exhaustively only within the stated constants",
                        "astropy Time arithmetic is accurate to 2^-52 day per operation",
                        "abstraction function harness/common.py + pipeline_replay.py"]


def run(chk):
    run_pipeline(chk, want=("C01",))
    run_big_slices(chk, 6000 if chk.tier == "thorough" else 600)
    if chk.tier == "thorough":
        import suite
        ev = suite.trace_suite(chk)
        if ev:
            chk.notes["suite_slices_validated"] = suite.validate_slices(chk, ev)


def replay(doc):
    import common
    import pipeline_replay as pr
    c = doc["case"]
    if c.get("kind") == "bigslice":
        import trace_util
        ev = big_slice_events(random.Random(c["seed"] + 17), c["n_events"])[c["event_id"]]
        rej, _ = trace_util.validate("Trace_Slice", [{k: v for k, v in ev.items() if not k.startswith("_")}])
        print(ev["_desc"], "->", [f for _, f in rej] or "accepted")
        return 1 if rej else 0
    concs = common.concs(c["nconc"], random.Random(c["seed"] * 7919 + 13))
    concs = concs + common.unit_twins(concs) + common.leap_concs(concs)
    common._ASSIGN_COUNT = c.get("assign_count", 0)
    res, skip = pr.replay(c["case"], concs[c["conc_index"]], want=(doc["property"],))
    res = [r for r in res if r[0] == doc["property"]]
    for r in res:
        print("VIOLATION property=%s replay=(this case)  # %s: %s" % (r[0], r[1], r[2]))
    if not res:
        print("case passes")
    return 1 if res else 0


# ---------------------------------------------------------------- code -> Trace: big slices
def big_slice_events(rnd, n_events):
    """Slices of huge (broadcast / Dask backed, no memory) signals with random
    bounds; one event per real __getitem__ call, exact numbers."""
    import numpy as np
    import common
    import exact
    from common import pb, u, Time, da
    events = []
    rates = [(1, u.mHz), (1, u.Hz), (44.1, u.kHz), (1, u.MHz), (800 / 3, u.MHz), (2, u.GHz), (6.4, u.GHz)]
    for i in range(n_events):
        n = rnd.choice([0, 1, 2, 7, 10 ** 3, 10 ** 6 + 3, 10 ** 7, 123456789, 2 ** 30 + 5])
        rate = rnd.choice(rates)
        ep = rnd.choice(common.EPOCHS + [None])
        if ep is not None and (n / (rate[0] * rate[1]).to_value(u.Hz) > 1e5 or rnd.random() < 0.3):
            # UTC day arithmetic is not uniform across leap seconds (astropy is right, a day-fraction
            # ledger is not): long spans are stamped in TAI, where jd1+jd2 differences are elapsed time
            ep = Time(ep.jd1, ep.jd2, format="jd", scale="tai")
        if rnd.random() < 0.5:
            data = da.zeros((n, 2), chunks=(max(n, 1), 2), dtype="complex64")
        else:
            data = np.broadcast_to(np.zeros((1, 2), "complex64"), (n, 2))
        z = pb.BasebandSignal(data, sample_rate=rate[0] * rate[1], start_time=ep, center_freq=1 * u.GHz)

        def bound():
            if rnd.random() < 0.2:
                return None
            m = max(n, 3)
            return rnd.choice([rnd.randrange(-2 * m, 2 * m + 1), rnd.randrange(-3, 4), -m, m, m - 1, -m - 1, m + 1])
        a, b = bound(), bound()
        c = rnd.choice([None, 1, 2, 3, 7, 1000, max(n, 1), 2 * n + 1])
        r = z[a:b:c]

        def bd(x):
            return {"none": x is None, "v": exact.big(0 if x is None else x)}
        ev = {"id": i, "ev": "time_slice", "n": exact.big(n), "a": bd(a), "b": bd(b), "c": bd(c),
              "rate": exact.rat(common.hz(z.sample_rate)), "hasT": ep is not None,
              "t": exact.rat(common.time_days(z.start_time) if ep is not None else 0),
              "n1": exact.big(len(r)), "rate1": exact.rat(common.hz(r.sample_rate)),
              "hasT1": r.start_time is not None,
              "t1": exact.rat(common.time_days(r.start_time) if r.start_time is not None else 0),
              "stop1": exact.rat(common.time_days(r.stop_time) if r.start_time is not None else 0),
              "_desc": "z[%r:%r:%r] len=%d rate=%s start=%s" % (a, b, c, n, z.sample_rate, ep)}
        events.append(ev)
    return events


def run_big_slices(chk, n_events):
    import trace_util
    rnd = random.Random(chk.seed + 17)
    events = big_slice_events(rnd, n_events)
    slim = [{k: v for k, v in e.items() if not k.startswith("_")} for e in events]
    rejected, n = trace_util.validate("Trace_Slice", slim, batch=1500, chk=chk)
    chk.validated += n
    byid = {e["id"]: e for e in events}
    for e, failed in rejected:
        chk.violation("bigslice:" + "+".join(sorted(failed)), "%s: failed %s" % (byid[e["id"]]["_desc"], failed),
                      {"kind": "bigslice", "seed": chk.seed, "n_events": n_events, "event_id": e["id"]})
    chk.notes["big_slice_events"] = n
