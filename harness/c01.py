"""C01 - retained samples keep their absolute timestamps (spec/Pipeline.tla)."""
import os
import random

import tlc
import framework

PID = "C01"
SCR = os.path.join(framework.ROOT, ".scratch")


def gen_cases(chk, name, cfg, **kw):
    os.makedirs(SCR, exist_ok=True)
    out = os.path.join(SCR, "%s_%s_%d.ndjson" % (chk.pid, name, os.getpid()))
    if os.path.exists(out):
        os.remove(out)
    r = tlc.run("Gen_Pipeline", cfg, env={"GEN_OUT": out}, timeout=1800, **kw)
    chk.add_tlc("gen:" + name, r)
    if not r.ok:
        chk.machinery_errors.append("generation %s failed: %s" % (name, r.stdout[-2000:]))
    return out


def run_pipeline(chk, want, quick_cases=1500, full_cases=60000, nconc=(3, 8),
                 mc=("MC_Pipeline_quick.cfg", "MC_Pipeline_full.cfg"),
                 gen_d1="Gen_Pipeline_d1.cfg", gen_sim="Gen_Pipeline_sim.cfg", filt=None):
    import common
    import pipeline_replay as pr
    rnd = random.Random(chk.seed)
    thorough = chk.tier == "thorough"
    # 1. model checking of the specification (all invariants, exhaustive within bounds)
    if mc is not None:
        cfgname = mc[1] if thorough else mc[0]
        r = tlc.run("MC_Pipeline", cfgname, timeout=3000)
        chk.mc_must_hold(cfgname, r)
        chk.exhaustive = r.ok
    # 2. behaviours: every distinct depth-1 outcome + sampled deeper pipelines
    files = [gen_cases(chk, "d1", gen_d1)]
    for i in range(4 if thorough else 1):
        files.append(gen_cases(chk, "sim%d" % i, gen_sim, workers=1))
    cases = []
    for f in files:
        cases += pr.load(f)
        os.remove(f)
    if filt:
        cases = [c for c in cases if filt(c)]
    limit = full_cases if thorough else quick_cases
    if len(cases) > limit:
        # stratified by the kind of the last operation so rare operations are not drowned
        by = {}
        for c in cases:
            by.setdefault(c["hist"][-1]["op"] if c["hist"] else "root", []).append(c)
        per = max(1, limit // len(by))
        cases = []
        for k in sorted(by):
            cases += by[k] if len(by[k]) <= per else rnd.sample(by[k], per)
    concs = common.concs(nconc[1] if thorough else nconc[0], rnd)
    skipped = 0
    ops = {}
    for i, case in enumerate(cases):
        conc = concs[i % len(concs)] if not thorough else None
        for c in ([conc] if conc else rnd.sample(concs, 2)):
            res, skip = pr.replay(case, c, want=want)
            skipped += skip
            chk.validated += 0 if skip else 1
            for o in case["hist"]:
                ops[o["op"]] = ops.get(o["op"], 0) + 1
            for prop, key, desc in res:
                if prop == chk.pid:
                    chk.violation(key, desc, {"kind": "pipeline", "case": case, "conc": c.name, "conc_index": concs.index(c),
                                              "seed": chk.seed, "nconc": len(concs)})
        if i < 3:
            chk.sample({"root": {k: case["root"][k] for k in ("cls", "len", "hasT", "nchan", "align")},
                        "hist": case["hist"], "expected": {k: case["cur"][k] for k in ("len", "t0", "per", "k0", "stride", "nchan", "clo")}})
    chk.notes["replayed_ops_by_kind"] = ops
    chk.notes["skipped_unrealisable"] = skipped
    chk.notes["concretisations"] = [c.name for c in concs]
    chk.assumptions += ["TLC explores the Pipeline specification exhaustively only within the stated constants",
                        "astropy Time arithmetic is accurate to 2^-52 day per operation",
                        "abstraction function harness/common.py + pipeline_replay.py"]


def run(chk):
    run_pipeline(chk, want=("C01",))


def replay(doc):
    import common
    import pipeline_replay as pr
    c = doc["case"]
    rnd = random.Random(c["seed"])
    concs = common.concs(c["nconc"], rnd)
    res, skip = pr.replay(c["case"], concs[c["conc_index"]], want=(doc["property"],))
    res = [r for r in res if r[0] == doc["property"]]
    for r in res:
        print("VIOLATION property=%s replay=(this case)  # %s: %s" % (r[0], r[1], r[2]))
    if not res:
        print("case passes")
    return 1 if res else 0
