"""CLI of the verification machinery (see ../DESIGN.md)."""
import argparse
import importlib
import json
import os
import sys
import traceback

HERE = os.path.dirname(os.path.abspath(__file__))
sys.path.insert(0, HERE)
# always verify the working tree of /repo
REPO = os.environ.get("VERIF_REPO", "/repo")
sys.path.insert(0, REPO)


def main():
    ap = argparse.ArgumentParser()
    ap.add_argument("pid", nargs="?")
    ap.add_argument("--tier", default=os.environ.get("VERIF_TIER", "quick"), choices=["quick", "thorough"])
    ap.add_argument("--replay")
    ap.add_argument("--setup", action="store_true")
    ap.add_argument("--selftest", action="store_true")
    ap.add_argument("--extra", action="store_true")
    a = ap.parse_args()
    seed = int(os.environ.get("VERIF_SEED", "0") or 0)
    if a.setup:
        import setup_all
        return setup_all.main()
    if a.selftest:
        import selftest
        return selftest.main()
    if a.extra:
        import extras
        return extras.main()
    if not a.pid:
        ap.error("property id required")
    import framework
    mod = importlib.import_module(a.pid.lower())
    if a.replay:
        with open(a.replay) as f:
            case = json.load(f)
        return mod.replay(case)
    chk = framework.Check(a.pid, a.tier, seed)
    try:
        mod.run(chk)
    except Exception as e:
        # Last line of defence.  Every harness feeds the real code inputs that are valid for the property;
        # if an exception escapes a harness and was RAISED INSIDE pulsarbat itself, the code under test
        # refused a valid input: that is a finding (it cannot happen on a tree that passes).  The same holds
        # when the exception came out of a library pulsarbat called (SciPy refusing what pulsarbat handed
        # it).  Anything raised without pulsarbat on the stack (harness, NumPy on a malformed result, TLC)
        # stays a machinery failure.
        tb = traceback.extract_tb(e.__traceback__)
        pkg = os.path.join(os.path.realpath(REPO), "pulsarbat") + os.sep
        inside = [f for f in tb if os.path.realpath(f.filename).startswith(pkg)]
        if type(e).__name__ == "LazyResultFailed":
            chk.violation("lazy-result-cannot-be-computed", str(e)[:500],
                          {"kind": "escaped-exception", "traceback": traceback.format_exc()[-3000:]})
        elif inside:
            fr = inside[-1]     # innermost pulsarbat frame (the exception may have come out of a library it called)
            chk.violation("real-code-raised:%s:%s" % (os.path.basename(fr.filename), type(e).__name__),
                          "pulsarbat raised / propagated %r at %s:%d (%s) on an input the harness treats as valid"
                          % (e, fr.filename, fr.lineno, fr.name),
                          {"kind": "escaped-exception", "traceback": traceback.format_exc()[-3000:]})
        else:
            chk.machinery_errors.append(traceback.format_exc())
    return chk.finish()


if __name__ == "__main__":
    sys.exit(main())
