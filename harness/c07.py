"""C07 - Phase arithmetic keeps two-double precision for every operand kind.

1. MC: spec/PhaseMachine.tla (register machine over spec/Phase.tla on the
   1/8-cycle lattice) - AddSubInverse, MulDivInverse, ImagRule, DivModLaw,
   ResultIsPhase, NormalisedInv, exhaustively; the two pinned variants must be
   rejected (vacuity).
2. code -> Trace: seeded drivers call the real Phase class with every operand
   kind, both orders, real and imaginary, counts up to 2^52, fractions incl.
   +-1/2, denormals, unnormalised pairs; spec/Trace_Phase.tla recomputes every
   result exactly (BigInt/Rat) and checks type, normalisation, flag and
   |int + frac - exact| <= 2^-52 cycle; sin/cos/exp vs CosSin(frac) at 1e-12
   and identical for equal fractions.
"""
import random

import tlc
import phase_drv as pd
from phase_drv import hx

PID = "C07"
P52 = 2.0 ** 52

SMALL_COUNTS = [0, 1, -1, 2, 3, -7, 10, 100, 12345, -99999, 1000001]
BIG_COUNTS = [P52, -P52, P52 - 1, 2.0 ** 51, 2.0 ** 51 + 1, -(2.0 ** 51) - 3, 2.0 ** 40 + 3, 2.0 ** 33 - 1,
              4503599627370495.0, 1e15, -123456789012345.0, 2.0 ** 47 + 12345]
FRACS = [0.0, 0.5, -0.5, 0.25, -0.25, 0.1, -0.3, 0.125, 0.4999999999999999, -0.49999999999999994,
         0.5 - 2.0 ** -54, 1e-20, -1e-20, 2.0 ** -60, 2.0 ** -53, -(2.0 ** -53), 5e-324, -5e-324, 1e-310,
         0.3333333333333333, -0.058161699852649296, 0.4772562027766636]


def count(rnd, big=None):
    big = rnd.random() < 0.4 if big is None else big
    if big:
        if rnd.random() < 0.5:
            return rnd.choice(BIG_COUNTS)
        return float(rnd.choice([-1, 1]) * rnd.randrange(2 ** 30, 2 ** 52))
    if rnd.random() < 0.5:
        return float(rnd.choice(SMALL_COUNTS))
    return float(rnd.randrange(-10 ** 6, 10 ** 6))


def fraction(rnd, tiny=True):
    r = rnd.random()
    if r < 0.5:
        f = rnd.choice(FRACS)
        # (exact division by denormals costs TLC seconds per event: keep them rare there)
        return f if tiny or abs(f) > 1e-100 or f == 0 or rnd.random() < 0.04 else rnd.uniform(-0.5, 0.5)
    if r < 0.9:
        return rnd.uniform(-0.5, 0.5)
    return rnd.uniform(-1, 1) * 10.0 ** rnd.randint(-30, -3)


def phase(rnd, big=None, im=False, n=None, shape=None, tiny=True):
    """recipe of a scalar (n None) or array phase"""
    m = n or 1
    return {"i": [hx(count(rnd, big)) for _ in range(m)], "f": [hx(fraction(rnd, tiny)) for _ in range(m)],
            "im": bool(im), "shape": (shape or [n]) if n else None}


def ot(kind, vals, im=False, shape=None):
    if kind in ("pyint", "npint", "arrint"):
        return {"kind": kind, "vals": [int(v) for v in vals], "im": False, "shape": shape}
    return {"kind": kind, "vals": [hx(v) for v in vals], "im": bool(im), "shape": shape}


def as_phase_ot(ph):
    d = dict(ph)
    d["kind"] = "phasearr" if ph.get("shape") else "phase"
    return d


def f32(x):
    import numpy as np
    return float(np.float32(x))


def other_for(rnd, kind, vals_fn, n, im):
    """operand recipe of the given kind; vals_fn(integer?) -> one value"""
    if kind in ("pyint", "npint"):
        return ot(kind, [vals_fn(True)])
    if kind == "arrint":
        return ot(kind, [vals_fn(True) for _ in range(n)], shape=[n])
    if kind == "npfloat32":
        return ot(kind, [f32(vals_fn(False))])
    if kind in ("dimscaled", "dimscaledarr"):
        # scaled dimensionless unit; values chosen so that value * scale is exactly representable
        unit = rnd.choice(["percent", "km/m", "m/mm"])
        m = n if kind == "dimscaledarr" else 1
        if unit == "percent":
            vals = [25.0 * rnd.choice([1, 2, 3, 4, 6, 8, -2, -5, 10, 50, 400]) for _ in range(m)]
        else:
            vals = [rnd.choice([1, 2, 3, -1, 5, 12, -7]) / 8.0 for _ in range(m)]
        d = ot(kind, vals, im=im, shape=[m] if kind == "dimscaledarr" else None)
        d["unit"] = unit
        return d
    if kind in pd.ARRAY_KINDS:
        return ot(kind, [vals_fn(False) for _ in range(n)], im=im, shape=[n])
    return ot(kind, [vals_fn(False)], im=im)


def form(rnd):
    """out of place / in-place operator / ufunc with out= a Phase target of either kind"""
    r = rnd.random()
    if r < 0.5:
        return {"form": "op"}
    if r < 0.68:
        return {"form": "iop"}
    if r < 0.8:                           # out= aliases an input: the phase itself / the other (Phase) operand
        return {"form": rnd.choice(["outself", "outself", "outdiv"])}
    return {"form": "out", "tim": rnd.random() < 0.5}


def _reshape(d, shape, keep=None):
    """operand / phase recipe d with its elements cut to `keep` and laid out as `shape`"""
    d = dict(d)
    for key in ("i", "f", "vals"):
        if key in d and keep is not None:
            d[key] = d[key][:keep]
    d["shape"] = shape
    return d


def _n(d):
    return len(d["i"]) if "i" in d else len(d["vals"])


def bcast(rnd, ph, o, prob=0.35):
    """broadcasting as a generated dimension: length-1 axes on either side, (n,1) x (1,m),
    (n,1) x (m,), (1,) x (m,), 0-d x (m,) ... (scalars stay scalars)"""
    if rnd.random() >= prob:
        return ph, o
    parr = ph.get("shape") is not None
    oarr = o.get("kind") in pd.ARRAY_KINDS
    n, m = _n(ph), _n(o)
    if parr and oarr:
        how = rnd.choice(["p1", "o1", "col-row", "col-vec", "row-col", "p11"])
        if how == "p1":
            return _reshape(ph, [1], 1), _reshape(o, [m])
        if how == "o1":
            return _reshape(ph, [n]), _reshape(o, [1], 1)
        if how == "col-row":
            return _reshape(ph, [n, 1]), _reshape(o, [1, m])
        if how == "col-vec":
            return _reshape(ph, [n, 1]), _reshape(o, [m])
        if how == "row-col":
            return _reshape(ph, [1, n]), _reshape(o, [m, 1])
        return _reshape(ph, [1, 1], 1), _reshape(o, [m])
    if parr:                              # array phase with a scalar: give the phase a length-1 axis
        if rnd.random() < 0.7:
            return _reshape(ph, rnd.choice([[n, 1], [1, n]])), o
        return _reshape(ph, [1], 1), o
    return ph, o


# ------------------------------------------------------------------ recipes
ADD_KINDS = list(pd.PLAIN) + ["cycleq", "cycleqarr", "angle", "phase", "phasearr"]
MUL_KINDS = list(pd.PLAIN) + list(pd.DIMLESS)      # incl. dimscaled / dimscaledarr
IM_FACTOR_KINDS = list(pd.COMPLEX) + list(pd.DIMLESS)


def gen_addsub(rnd, n):
    out = []
    for _ in range(n):
        op = rnd.choice(["add", "sub"])
        im = rnd.random() < 0.2
        kind = rnd.choice(ADD_KINDS if not im else ["pycomplex", "npcomplex", "arrcomplex", "cycleq", "phase", "phasearr"])
        arr = rnd.random() < 0.35
        m = rnd.choice([2, 3, 5]) if (arr or kind in pd.ARRAY_KINDS) else None
        big = rnd.random() < 0.4
        ph = phase(rnd, big=big, im=im, n=m if arr else None)
        if kind in ("phase", "phasearr"):
            o = as_phase_ot(phase(rnd, big=(not big and rnd.random() < 0.4), im=im,
                                  n=m if kind == "phasearr" else None))
        else:
            def val(integer, big=big):
                c = count(rnd, big=(not big and rnd.random() < 0.4))
                return int(c) if integer else c + rnd.choice([0.0, 0.5, 0.25, fraction(rnd)])
            o = other_for(rnd, kind, val, m or 1, im)
        ph, o = bcast(rnd, ph, o)
        out.append(dict({"ev": "arith", "op": op, "ord": rnd.choice(["po", "op"]), "ph": ph, "ot": o}, **form(rnd)))
    return out


def _mag(ph):
    return max(abs(float.fromhex(i)) + 0.5 for i in ph["i"])


def gen_muldiv(rnd, n):
    out = []
    for _ in range(n):
        op = rnd.choice(["mul", "div"])
        im = rnd.random() < 0.3
        fim = rnd.random() < 0.35
        kind = rnd.choice(IM_FACTOR_KINDS if fim else MUL_KINDS)
        arr = rnd.random() < 0.35
        m = rnd.choice([2, 3, 4]) if (arr or kind in pd.ARRAY_KINDS) else None
        ph = phase(rnd, im=im, n=m if arr else None)
        room = P52 / _mag(ph)                 # |factor| below this keeps the product in scope

        def val(integer, room=room, op=op):
            if integer:
                c = [2, 3, -1, 7, -10, 1000, 1, 65536, -3]
                c = [x for x in c if (abs(x) <= room if op == "mul" else True)] or [1]
                return rnd.choice(c)
            r = rnd.random()
            if r < 0.35:
                x = rnd.choice([0.5, 1.5, 0.1, -0.3, 1 / 3, 1e-3, 3.141592653589793, -2.0, 7.0, 0.75, 1e-7])
            elif r < 0.7:
                x = rnd.uniform(-4, 4)
            elif r < 0.85:
                x = 0.9 * room * rnd.uniform(0.1, 1) if op == "mul" else rnd.uniform(0.5, 1) / max(room, 1e-300) * 1.2
            else:
                x = rnd.choice([1e-300, 5e-324, 2.0 ** -40, 1e10, 123456789.25, 2.0 ** 30])
            if op == "mul" and abs(x) > room:
                x = room * rnd.uniform(0.01, 0.9)
            if op == "div" and (x == 0 or abs(x) < 1.0 / room):
                x = rnd.uniform(1, 3) / room if room < 1e300 else 1.0
            return x if x != 0 else 1.0
        if kind in ("dimscaled", "dimscaledarr"):      # factors up to 1000: keep the product in scope
            ph = phase(rnd, big=False, im=im, n=m if arr else None)
        o = other_for(rnd, kind, val, m or 1, fim)
        ord_ = "po" if op == "div" else rnd.choice(["po", "op"])
        ph, o = bcast(rnd, ph, o)
        out.append(dict({"ev": "arith", "op": op, "ord": ord_, "ph": ph, "ot": o}, **form(rnd)))
    return out


def gen_unary(rnd, n):
    out = []
    for _ in range(n):
        arr = rnd.random() < 0.3
        out.append(dict({"ev": "arith", "op": rnd.choice(["neg", "abs", "abs", "pos"]),
                         "np": rnd.choice(["abs", "np.abs", "np.absolute", "np.fabs"]),
                         "ph": phase(rnd, im=rnd.random() < 0.25, n=rnd.choice([2, 4]) if arr else None)}, **form(rnd)))
    return out


UNNORMALISED = [(0.1, 1000.0), (0.3, 2.0 ** 40 + 0.5), (-0.7, 12345.25), (1e-3, 2.0 ** 51), (0.1, -1000.0),
                (123.456, 98765.4321), (2.0 ** 51 + 0.5, 2.0 ** 50 + 0.25), (-(2.0 ** 51) - 0.5, -(2.0 ** 51) + 0.75),
                (1e-9, 1e9 + 0.1), (0.4999999999999999, 2.0 ** 52 - 1), (1234.75, 0.8), (0.3, 0.4), (P52 - 2, 1.75), (100000.3, -123.7), (2.0 ** 51 + 0.5, 0.5), (-0.5, -0.5),
                (P52 - 1, 0.9999999), (1e-320, 5e-324), (2.5, 0.0), (3.5, 0.0), (-2.5, 0.0), (0.5, 0.0), (1.5, 1.0),
                (7.0, 0.5), (8.0, -0.5), (1e15 + 0.125, 0.375), (-1e15, 0.4999999999999999), (0.75, 0.75), (1e9, 1e-9),
                (123456.789, 987.654321), (2.0 ** 52, -0.75), (-(2.0 ** 52), 0.25), (1.2, 0.0), (0.1, 0.2)]
NEW_KINDS = ["pyfloat", "npfloat", "arr0", "arrn", "cycleq", "cycleqarr", "angle", "pyint", "npint", "arrint",
             "npfloat32"]


def gen_new(rnd, n):
    out = []
    for j in range(n):
        two = rnd.random() < 0.65
        im = rnd.random() < 0.15
        if j < len(UNNORMALISED):
            x0, y0 = UNNORMALISED[j]
        elif rnd.random() < 0.5:
            x0, y0 = rnd.choice(UNNORMALISED)
        else:
            x0 = count(rnd) + rnd.choice([0.0, 0.5, rnd.uniform(-1, 1)])
            y0 = rnd.choice([fraction(rnd), rnd.uniform(-3, 3), count(rnd, big=False) + 0.25])
            if abs(x0) + abs(y0) > P52:
                y0 = fraction(rnd)
        if rnd.random() < 0.5:
            x0, y0 = y0, x0                      # every magnitude ordering: the small / non-integral part first
        kx = rnd.choice(["pycomplex", "cycleq", "arrcomplex"] if im else NEW_KINDS)
        m = 3 if kx in pd.ARRAY_KINDS else 1

        def vx(integer, x0=x0):
            return int(x0) if integer else x0
        x = other_for(rnd, kx, vx, m, im)
        rc = {"ev": "arith", "op": "new2" if two else "new1", "x": x}
        if two:
            ky = rnd.choice(["pycomplex", "cycleq", "phase"] if im else ["pyfloat", "npfloat", "arr0", "arrn", "cycleq",
                                                                          "pyint", "phase", "angle"])
            if ky == "phase":
                rc["y"] = as_phase_ot(phase(rnd, big=False, im=im))
            else:
                def vy(integer, y0=y0):
                    return int(y0) if integer else y0
                rc["y"] = other_for(rnd, ky, vy, 3 if ky in pd.ARRAY_KINDS else 1, im)
        out.append(rc)
    return out


DIVISORS = [0.5, 1.0, 0.3, 7.0, -0.5, 1.5, 0.125, 3.0, -2.25, 1e-3, 0.1, 1000.0, 2.0 ** -10, 1 / 3]


def gen_divmod(rnd, n):
    out = []
    for _ in range(n):
        op = rnd.choice(["floordiv", "mod", "divmod"])
        kind = rnd.choice(["cycleq", "cycleq", "cycleqarr", "angle", "phase", "phasearr"])
        arr = rnd.random() < 0.3
        m = rnd.choice([2, 3]) if (arr or kind in pd.ARRAY_KINDS) else None
        big = rnd.random() < 0.3
        ph = phase(rnd, big=big, n=m if arr else None, tiny=False)
        exactmult = rnd.random() < 0.3

        def dval(integer, big=big):
            d = rnd.choice(DIVISORS) if rnd.random() < 0.7 else rnd.uniform(-5, 5) or 1.0
            if big and abs(d) < 1:
                d = rnd.choice([1.0, 2.0, 3.0, -7.0, 1.5, 1024.0, 12345.0])
            return d
        if kind in ("phase", "phasearr"):
            cnt = len(ph["i"]) if kind == "phasearr" else 1
            ds = [dval(False) for _ in range(cnt)]
            o = {"kind": kind, "i": [hx(round(d)) for d in ds], "f": [hx(d - round(d)) for d in ds], "im": False,
                 "shape": [cnt] if kind == "phasearr" else None}
            dfirst = ds[0]
        else:
            o = other_for(rnd, kind, dval, m or 1, False)
            dfirst = float.fromhex(o["vals"][0])
        if exactmult and not big:
            k = rnd.randrange(-2000, 2000)
            v = k * dfirst                       # (nearly) an exact multiple of the divisor
            ph = {"i": [hx(round(v))] * len(ph["i"]), "f": [hx(v - round(v))] * len(ph["i"]), "im": False,
                  "shape": ph["shape"]}
        ph, o = bcast(rnd, ph, o, 0.25)
        out.append(dict({"ev": "arith", "op": op, "ord": "po", "ph": ph, "ot": o}, **divform(rnd, op)))
    out += gen_divmod_correcting(rnd, max(8, n // 3))
    return out


def gen_divmod_correcting(rnd, n):
    """operand pairs for which the single-double quotient floor(a.cycle / d) is off by one or is
    imprecise, so that the correction pass must run: a = k*d -/+ a fraction far below ulp(k*d),
    and counts 2^40..2^50 over small non-dyadic divisors; every form (out of place, in place,
    out= each operand, out= a separate target, quotient to an array / a Quantity / None)"""
    out = []
    for _ in range(n):
        op = rnd.choice(["mod", "divmod", "mod", "divmod", "floordiv"])
        kind = rnd.choice(["phase", "phase", "phasearr", "cycleq", "angle", "cycleqarr"])
        m = rnd.choice([2, 3]) if kind in pd.ARRAY_KINDS else None
        cnt = m or 1
        if rnd.random() < 0.65:
            ds = [float(rnd.choice([1, 1, 2, 3, 7, -2, -5, 16])) for _ in range(cnt)]
            ks = [rnd.choice([3, 1, -4, 1000, rnd.randrange(-10 ** 6, 10 ** 6), rnd.randrange(2 ** 30, 2 ** 48)])
                  for _ in range(cnt)]
            eps = [rnd.choice([-1e-20, -2.0 ** -60, 1e-20, -1e-17, 2.0 ** -58, -3e-19]) for _ in range(cnt)]
            ai, af = [k * d for k, d in zip(ks, ds)], eps
        else:
            ds = [rnd.choice([0.3, 1 / 3, 0.7, 1.1, -0.3, 0.1]) for _ in range(cnt)]
            ai = [float(rnd.choice([-1, 1]) * rnd.randrange(2 ** 40, 2 ** 50)) for _ in range(cnt)]
            af = [rnd.uniform(-0.5, 0.5) for _ in range(cnt)]
        arrp = m is not None and rnd.random() < 0.8
        if not arrp:
            ai, af = ai[:1], af[:1]
        ph = {"i": [hx(x) for x in ai], "f": [hx(x) for x in af], "im": False, "shape": [len(ai)] if arrp else None}
        if kind in ("phase", "phasearr"):
            o = {"kind": kind, "i": [hx(round(d)) for d in ds], "f": [hx(d - round(d)) for d in ds], "im": False,
                 "shape": [cnt] if kind == "phasearr" else None}
        else:
            o = ot(kind, ds[:cnt], shape=[cnt] if kind in pd.ARRAY_KINDS else None)
        f = rnd.choice(["op", "iop", "outself", "out", "outdiv", "outdiv"]) if op != "floordiv" else rnd.choice(["op", "out"])
        out.append({"ev": "arith", "op": op, "ord": "po", "ph": ph, "ot": o, "form": f, "tim": rnd.random() < 0.5,
                    "qq": rnd.random() < 0.5, "qnone": rnd.random() < 0.4})
    return out


def divform(rnd, op):
    """out of place / p %= d / out= the dividend itself / out= a separate stale Phase (either kind) /
    out= the Phase divisor; the quotient of divmod and floor_divide goes to an array or a Quantity"""
    r = rnd.random()
    if op == "floordiv":
        f = "op" if r < 0.75 else "out"
    elif op == "mod":
        f = "op" if r < 0.4 else "iop" if r < 0.6 else "outself" if r < 0.75 else "out" if r < 0.94 else "outdiv"
    else:
        f = "op" if r < 0.5 else "outself" if r < 0.72 else "out" if r < 0.94 else "outdiv"
    return {"form": f, "tim": rnd.random() < 0.5, "qq": rnd.random() < 0.5, "qnone": rnd.random() < 0.25}


def gen_trig(rnd, n):
    out = []
    for _ in range(n):
        f = rnd.choice([0.0, 0.25, -0.25, 0.125, 0.5, -0.5, 1 / 12, 0.1, -0.3, 1e-9, 2.0 ** -30, 0.4999999999999999])
        if rnd.random() < 0.5:
            f = rnd.uniform(-0.5, 0.5)
        ns = [0.0, float(rnd.randrange(1, 1000)), -float(rnd.randrange(1, 10 ** 9)), float(rnd.randrange(2 ** 40, 2 ** 52))]
        out.append({"ev": "trig", "fn": rnd.choice(["sin", "cos", "exp"]), "f": hx(f), "ns": [hx(x) for x in ns],
                    "array": rnd.random() < 0.4, "left": rnd.random() < 0.5})
    return out


def gen_seq(rnd, n):
    """several operations reusing the SAME operand objects (arrays, Quantities, Phases,
    scalars): each judged against the values logged before the first use, and every
    operand must still hold those values afterwards"""
    out = []
    for _ in range(n):
        mulfam = rnd.random() < 0.65
        im = rnd.random() < 0.45
        arr = rnd.random() < 0.7
        m = rnd.choice([2, 3]) if arr else None
        ph = phase(rnd, big=False, im=im, n=m, tiny=False)
        if mulfam:
            fim = rnd.random() < 0.6
            kind = rnd.choice(["arrcomplex", "arrcomplex", "dimlessarr", "pycomplex", "npcomplex", "dimless"] if fim else
                              ["arrn", "arrint", "dimlessarr", "dimscaledarr", "pyfloat", "arr0"])

            def val(integer):
                return rnd.choice([2, 3, -1, 5]) if integer else rnd.choice([0.5, 1.5, -2.0, 0.75, 3.0, -0.25, 1.25])
            o = other_for(rnd, kind, val, m or 1, fim)
            ops = ["mul", "div"]
        else:
            kind = rnd.choice(["arrcomplex", "cycleqarr", "phasearr", "pycomplex"] if im else
                              ["arrn", "cycleqarr", "phasearr", "arrint", "angle", "pyfloat"])
            if kind == "phasearr":
                o = as_phase_ot(phase(rnd, big=False, im=im, n=m or 2, tiny=False))
            else:
                def val(integer):
                    c = count(rnd, big=False)
                    return int(c) if integer else c + rnd.choice([0.0, 0.5, 0.25, fraction(rnd, False)])
                o = other_for(rnd, kind, val, m or 1, im)
            ops = ["add", "sub"]
        steps = []
        for _k in range(rnd.choice([2, 2, 3])):
            op = rnd.choice(ops)
            st = dict({"op": op, "ord": "po" if op == "div" else rnd.choice(["po", "po", "op"])}, **form(rnd))
            steps.append(st)
        out.append({"ev": "seq", "ph": ph, "ot": o, "steps": steps})
    return out


def gen_boundary(rnd):
    """the edge of the quantifier: count 2^52 with a stored fraction of exactly +-1/2 (the only place
    where +1/2 survives normalisation), reached directly and by construction / addition /
    multiplication; every operation and form on them.  Always present, whatever the seed."""
    out = []
    B = [(P52, 0.5), (-P52, -0.5), (P52, -0.5), (P52 - 1, 0.5), (P52, 0.25), (-P52, 0.5)]
    def ph1(c, f, im=False):
        return {"i": [hx(c)], "f": [hx(f)], "im": im, "shape": None}
    arr = {"i": [hx(P52), hx(-P52), hx(P52 - 2)], "f": [hx(0.5), hx(-0.5), hx(0.5)], "im": False, "shape": [3]}
    phases = [ph1(c, f) for c, f in B] + [ph1(P52, 0.5, True), arr]
    for x, y in ((P52, 0.5), (P52 - 1, 1.5), (P52 - 10, 10.5), (0.5, P52), (-P52 + 1, -1.5), (2.0 ** 51 + 0.25, 2.0 ** 51 + 0.25)):
        for k in ("pyfloat", "npfloat", "arr0", "cycleq"):
            out.append({"ev": "arith", "op": "new2", "x": ot(k, [x]), "y": ot("pyfloat", [y])})
    out.append({"ev": "arith", "op": "add", "ord": "po", "ph": ph1(P52 - 10, 0.0), "ot": as_phase_ot(ph1(10.0, 0.5))})
    out.append({"ev": "arith", "op": "add", "ord": "op", "ph": ph1(P52 - 10, 0.0), "ot": ot("cycleq", [10.5])})
    for k in ("pyint", "pyfloat", "arr0", "dimless"):
        out.append({"ev": "arith", "op": "mul", "ord": rnd.choice(["po", "op"]), "ph": ph1(2.0 ** 51, 0.25), "ot": ot(k, [2.0])})
        out.append({"ev": "arith", "op": "div", "ord": "po", "ph": ph1(2.0 ** 51, 0.25), "ot": ot(k, [0.5] if k != "pyint" else [1])})
    for ph in phases:
        for op in ("neg", "abs", "pos"):
            for f in ("op", "out"):
                out.append({"ev": "arith", "op": op, "np": rnd.choice(["abs", "np.abs", "np.fabs"]), "ph": ph, "form": f,
                            "tim": rnd.random() < 0.5})
        im = ph["im"]
        for op, kind, v in (("add", "pyfloat", 0.0), ("sub", "pyint", 1), ("sub", "cycleq", 0.5), ("add", "npfloat", -0.5),
                            ("sub", "phase", None), ("add", "arrn", -2.25), ("mul", "pyfloat", 1.0), ("mul", "pyint", -1),
                            ("mul", "npfloat", 0.5), ("div", "pyfloat", 1.0), ("div", "pyint", 2), ("div", "arr0", -1.0),
                            ("mod", "cycleq", 3.0), ("divmod", "angle", 1.0), ("mod", "phase", None), ("floordiv", "cycleq", 7.0)):
            if im and (op in ("mod", "divmod", "floordiv") or (op in ("add", "sub") and kind != "phase")):
                continue
            if kind == "phase":
                o = as_phase_ot(ph1(3.0, 0.5, im))
            elif kind == "arrn":
                k = len(ph["i"]) if ph["shape"] else 2
                o = ot(kind, [v - j for j in range(k)], shape=[k])
            else:
                o = ot(kind, [v])
            fm = rnd.choice(["op", "op", "iop", "out", "outself"])
            out.append({"ev": "arith", "op": op, "ord": "po" if op in ("div", "mod", "divmod", "floordiv") else rnd.choice(["po", "op"]),
                        "ph": ph, "ot": o, "form": fm, "tim": rnd.random() < 0.5, "qq": rnd.random() < 0.5})
    return out


def fixed_cases():
    """the hand-written edge cases (always present, independent of the seed)"""
    one = {"i": [hx(3.0)], "f": [hx(0.2)], "im": False, "shape": None}
    onej = dict(one, im=True)
    big = {"i": [hx(P52 - 1)], "f": [hx(0.25)], "im": False, "shape": None}
    out = []
    for ph in (one, onej, big):
        for k in ("pycomplex", "npcomplex", "dimless"):
            out.append({"ev": "arith", "op": "mul", "ord": "po", "ph": ph, "ot": ot(k, [1.0], im=True)})
            out.append({"ev": "arith", "op": "mul", "ord": "op", "ph": ph, "ot": ot(k, [2.0], im=True)})
            out.append({"ev": "arith", "op": "div", "ord": "po", "ph": ph, "ot": ot(k, [1.0], im=True)})
        for k in ("pyint", "pyfloat", "npfloat", "arr0", "dimless"):
            out.append({"ev": "arith", "op": "mul", "ord": "po", "ph": ph, "ot": ot(k, [2.0])})
            out.append({"ev": "arith", "op": "div", "ord": "po", "ph": ph, "ot": ot(k, [2.0])})
    for ph in (one, onej, big):
        for k, v in (("pycomplex", 1.0), ("npcomplex", 2.0), ("pyfloat", 2.0), ("dimless", 0.5)):
            im = k in ("pycomplex", "npcomplex")
            for op in ("mul", "div"):
                out.append({"ev": "arith", "op": op, "ord": "po", "ph": ph, "ot": ot(k, [v], im=im), "form": "iop"})
                for tim in (False, True):
                    out.append({"ev": "arith", "op": op, "ord": "po", "ph": ph, "ot": ot(k, [v], im=im), "form": "out",
                                "tim": tim})
        for unit, v in (("percent", 50.0), ("percent", 200.0), ("km/m", 2.0)):
            for op, ord_ in (("mul", "po"), ("mul", "op"), ("div", "po")):
                if ph is big and unit == "km/m" and op == "mul":
                    continue
                out.append({"ev": "arith", "op": op, "ord": ord_, "ph": ph,
                            "ot": dict(ot("dimscaled", [v], im=False), unit=unit)})
    seven = {"i": [hx(7.0)], "f": [hx(0.2)], "im": False, "shape": None}
    sevens = {"i": [hx(7.0), hx(9.0), hx(P52 - 3)], "f": [hx(0.2), hx(-0.1), hx(0.25)], "im": False, "shape": [3]}
    for ph in (seven, sevens):
        for d in (ot("cycleq", [2.0]), ot("angle", [2.0]), ot("cycleq", [0.75]),
                  {"kind": "phase", "i": [hx(2.0)], "f": [hx(0.25)], "im": False, "shape": None}):
            for op, forms in (("mod", ("iop", "outself", "out", "outdiv")), ("divmod", ("outself", "out", "outdiv")),
                              ("floordiv", ("out",))):
                for f in forms:
                    for tim in ((False, True) if f == "out" else (False,)):
                        out.append({"ev": "arith", "op": op, "ord": "po", "ph": ph, "ot": d, "form": f, "tim": tim,
                                    "qq": tim})
    for op in ("floordiv", "mod", "divmod"):
        out.append({"ev": "arith", "op": op, "ord": "po", "ph": one, "ot": as_phase_ot(one)})
        out.append({"ev": "arith", "op": op, "ord": "po", "ph": one, "ot": ot("cycleq", [0.5])})
        out.append({"ev": "arith", "op": op, "ord": "po", "ph": big, "ot": ot("cycleq", [0.75])})
        out.append({"ev": "arith", "op": op, "ord": "po", "ph": one,
                    "ot": {"kind": "phase", "i": [hx(0.0)], "f": [hx(0.5)], "im": False, "shape": None}})
    # just beyond -1/2: the renormalisation must not leave |frac| > 1/2 (found by MC_DayFrac)
    h = -(0.5 + 2.0 ** -53)
    for y in (0.4 * 2.0 ** -53, 2.0 ** -55, 0.3 * 2.0 ** -53):
        out.append({"ev": "arith", "op": "new2", "x": ot("pyfloat", [h]), "y": ot("pyfloat", [y])})
        out.append({"ev": "arith", "op": "new2", "x": ot("arrn", [h, h], shape=[2]), "y": ot("npfloat", [y])})
    for f in (0.46185843, 0.44094365, 0.3, 0.25, 0.4999):
        import math
        ph = {"i": [hx(0.0)], "f": [hx(f)], "im": False, "shape": None}
        for k in ("pyfloat", "npfloat", "arr0", "dimless"):
            out.append({"ev": "arith", "op": "div", "ord": "po", "ph": ph, "ot": ot(k, [math.nextafter(-2 * f, 10.0)])})
            out.append({"ev": "arith", "op": "div", "ord": "po", "ph": ph, "ot": ot(k, [math.nextafter(2 * f, -10.0)])})
    for x in (1.2, 0.5, 1.5, 2.5, -0.5, P52, 5e-324):
        out.append({"ev": "arith", "op": "new1", "x": ot("pyfloat", [x])})
    out.append({"ev": "arith", "op": "new2", "x": ot("pyfloat", [1.0]), "y": ot("pyfloat", [0.2])})
    for k in ("pyint", "pyfloat", "npfloat", "arr0", "cycleq", "angle"):
        for ord_ in ("po", "op"):
            out.append({"ev": "arith", "op": "add", "ord": ord_, "ph": one, "ot": ot(k, [1.0])})
            out.append({"ev": "arith", "op": "sub", "ord": ord_, "ph": big, "ot": ot(k, [1.0])})
    return out


def recipes(rnd, scale):
    rc = fixed_cases()
    rc += gen_boundary(rnd)
    rc += gen_new(rnd, 200 * scale)
    rc += gen_addsub(rnd, 380 * scale)
    rc += gen_muldiv(rnd, 500 * scale)
    rc += gen_unary(rnd, 150 * scale)
    rc += gen_seq(rnd, 110 * scale)
    rc += gen_divmod(rnd, 260 * scale)
    rc += gen_trig(rnd, 60 * scale)
    return rc


def _tlc(module, cfg, **kw):
    """tlc.run; a run that ends without any verdict (JVM killed from outside on a
    shared machine) is repeated once before it is reported as a machinery error"""
    kw.setdefault("heap", "2g")
    r = tlc.run(module, cfg, **kw)
    if not r.ok and r.violation is None:
        r = tlc.run(module, cfg, **kw)
    return r


def model_checking(thorough):
    """MC runs of the specification (run beside the trace validation); returns
    [(name, result, must_hold, expected violation)]"""
    out = []
    w = 8 if thorough else 6
    out.append(("MC_Phase_" + ("full" if thorough else "quick"),
                _tlc("MC_Phase", "MC_Phase_full.cfg" if thorough else "MC_Phase_quick.cfg", workers=w, timeout=3000),
                True, None))
    # MC-2: day_frac over the toy floating point, every pair of toy floats
    out.append(("MC_DayFrac_" + ("full" if thorough else "quick"),
                _tlc("MC_DayFrac", "MC_DayFrac_full.cfg" if thorough else "MC_DayFrac_quick.cfg", workers=w,
                        timeout=3000), True, None))
    for mod, cfg, inv in NEGS:
        out.append(("neg:" + cfg, _tlc(mod, cfg, workers=2, timeout=600), False, inv))
    return out


NEGS = [("MC_Phase", "Neg_Phase_ii.cfg", "ImagRule"), ("MC_Phase", "Neg_Phase_np2.cfg", "ResultIsPhase"),
        ("MC_DayFrac", "Neg_DayFrac_aswritten.cfg", "FracInRange"), ("MC_DayFrac", "Neg_DayFrac_nopass.cfg", "FracInRange"),
        ("MC_DayFrac", "Neg_DayFrac_floor.cfg", "FracInRange")]


def file_mc(chk, results):
    ok = True
    for name, r, must, inv in results:
        if must:
            chk.mc_must_hold(name, r)
            ok = ok and r.ok
        else:
            chk.add_tlc(name, r)
            if r.violation != inv:
                chk.machinery_errors.append("%s: TLC should reject this variant with %s, got %r" % (name, inv, r.violation))
    chk.exhaustive = ok
    chk.notes["negative_configs_rejected"] = ["%s (%s)" % (c, i) for _, c, i in NEGS]


def run(chk):
    import concurrent.futures as cf
    rnd = random.Random(chk.seed)
    thorough = chk.tier == "thorough"
    with cf.ThreadPoolExecutor(max_workers=1) as ex:
        # 1. model checking of the specification (beside the trace validation)
        mc = ex.submit(model_checking, thorough)
        # 2. trace validation of the real class
        rcs = recipes(rnd, 16 if thorough else 1)
        events, rejected = pd.validate(chk, rcs, "C07", procs=7)
        file_mc(chk, mc.result())
    for ev in events[:200:40]:
        chk.sample({k: v for k, v in ev.items() if k in ("ev", "op", "ord", "other", "fn")} | {"desc": pd.describe(ev, [])})
    chk.notes["recipes"] = len(rcs)
    chk.assumptions += ["TLC explores PhaseMachine exhaustively only on the 1/8-cycle lattice within the stated bounds, "
                        "and day_frac only over the toy floating point (4/5-bit significands)",
                        "events are recorded outside the class (harness/phase_drv.py); exact.rat of float64 is exact",
                        "the kernel's CosSin is accurate to 1e-16 (self-tested in setup)"]


def replay(doc):
    return pd.replay_case(doc)
