"""Helpers shared by c13 / c18 / c20 (builder: pol-fft): dyadic interchange with spec/Dyadic.tla and a
parallel front end for trace validation (several TLC processes, one per slice of the trace)."""
import json
import os
import threading
from fractions import Fraction

import exact
import framework
import tlc

SCR = os.path.join(framework.ROOT, ".scratch")


def dy(x):
    """exact value of a float / int / Fraction with power-of-two denominator -> {"m": BigInt, "e": limb exponent}"""
    f = exact.frac(x)
    if f == 0:
        return {"m": exact.big(0), "e": 0}
    den = f.denominator
    k = den.bit_length() - 1
    assert den == 1 << k, "not dyadic"
    e = -((k + 14) // 15)                  # limb exponent, 15 e <= -k
    return {"m": exact.big(f.numerator << (-15 * e - k)), "e": e}


def undy(d):
    return Fraction(exact.unbig(d["m"])) * Fraction(2) ** (15 * d["e"])


def load_ndjson(path):
    out = []
    with open(path) as f:
        for line in f:
            line = line.strip()
            if line:
                c = json.loads(line)
                out.append(json.loads(c) if isinstance(c, str) else c)
    return out


def _validate_one(module, part, tag, cfg, timeout, heap, env, out, lock, chk, name):
    os.makedirs(SCR, exist_ok=True)
    tf = os.path.join(SCR, "%s_%d_%s.trace.json" % (module, os.getpid(), tag))
    vf = tf.replace(".trace.json", ".verdict.ndjson")
    try:
        with open(tf, "w") as f:
            json.dump(part, f)
        if os.path.exists(vf):
            os.remove(vf)
        e = {"TRACE_FILE": tf, "VERDICT_FILE": vf}
        e.update(env or {})
        r = tlc.run(module, cfg or module + ".cfg", workers=1, env=e, timeout=timeout, heap=heap, deadlock=True)
        rejected, summary = [], None
        if os.path.exists(vf):
            for line in open(vf):
                line = line.strip()
                if not line:
                    continue
                v = json.loads(line)
                if isinstance(v, str):
                    v = json.loads(v)
                if v.get("summary"):
                    summary = v
                else:
                    rejected.append((part[v["line"] - 1], v["failed"]))
        if not r.ok or summary is None or summary["events"] != len(part):
            raise tlc.TLCError("trace validation did not consume the whole trace (%s):\n%s" % (module, r.stdout[-3000:]))
        with lock:
            out["rejected"] += rejected
            out["done"] += len(part)
            if chk is not None:
                chk.add_tlc("trace:%s[%s]" % (name or module, tag), r)
    except Exception as ex:  # noqa
        with lock:
            out["errors"].append(ex)
    finally:
        for p in (tf, vf):
            if os.path.exists(p):
                os.remove(p)


def validate_parallel(module, events, nproc=8, cfg=None, timeout=1800, heap="2g", env=None, chk=None, name=None):
    """like trace_util.validate, but the trace is cut into nproc contiguous slices validated by concurrent
    single-worker TLC processes (events are independent of each other in the Trace_* specs used here).
    -> (rejected [(event, failed clauses)], number validated); raises TLCError on machinery failure"""
    if not events:
        return [], 0
    nproc = max(1, min(nproc, 8, (len(events) + 19) // 20))          # never more than 8 JVMs at a time
    size = (len(events) + nproc - 1) // nproc
    out = {"rejected": [], "done": 0, "errors": []}
    lock = threading.Lock()
    th = []
    for i in range(nproc):
        part = events[i * size:(i + 1) * size]
        if part:
            t = threading.Thread(target=_validate_one, args=(module, part, "p%d" % i, cfg, timeout, heap, env, out, lock, chk, name))
            t.start()
            th.append(t)
    for t in th:
        t.join()
    if out["errors"]:
        raise out["errors"][0]
    return out["rejected"], out["done"]
