"""C17 - elementwise NumPy operations on signals equal the same operations on
their data (spec/Ufunc.tla).

1. MC: TLC checks the clauses of the property on the operational model of
   NumPy's override resolution + Signal.__array_ufunc__ (all arrangements of up
   to 3 / 4 operands over the six classes, arrays, scalars, Quantities, dask
   arrays; in-place chains of length 3), and rejects the wrong-handler models.
2. Gen -> code: every arrangement TLC enumerates is replayed on the real classes
   with NumPy's own ufunc objects; the expected outcome (status, returned
   identities, class, metadata owner, cast) is the record TLC printed.
3. code -> Trace: Signal.__array_ufunc__ is traced while the repository's ufunc
   tests and a seeded driver run; spec/Trace_Ufunc.tla decides every event."""
import concurrent.futures as cf
import json
import os
import random
import time

import tlc
import framework

PID = "C17"
SCR = os.path.join(framework.ROOT, ".scratch")
NEGS = {"wrap_inputs0": "WrapsAsResolvedSignal", "meta_last": "WrapsAsResolvedSignal",
        "out_not_returned": "OutIsReturned", "reduce_through": "Refusals", "matmul_through": "Refusals",
        "nout2_first": "WrapsAsResolvedSignal", "pinned_array": "AsArrayIsData",
        "cast_unsafe": ("ErrorsAsOnArrays", "InputsUnchanged")}
HEAP = "2g"


# ------------------------------------------------------------------ TLC side
def gen_cases(chk, name, cfg, workers=16):
    os.makedirs(SCR, exist_ok=True)
    out = os.path.join(SCR, "%s_%s_%d.ndjson" % (PID, name, os.getpid()))
    if os.path.exists(out):
        os.remove(out)
    r = tlc.run("Gen_Ufunc", cfg, env={"GEN_OUT": out}, timeout=1500, workers=workers, heap=HEAP)
    chk.add_tlc("gen:" + name, r)
    if not r.ok:
        chk.machinery_errors.append("generation %s failed: %s" % (name, r.stdout[-2000:]))
    cases = []
    if os.path.exists(out):
        with open(out) as f:
            for line in f:
                line = line.strip()
                if line:
                    c = json.loads(line)
                    cases.append(json.loads(c) if isinstance(c, str) else c)
        os.remove(out)
    return cases


def gkey(heap0, s):
    return (tuple(heap0), s["u"], s["m"], tuple(s["ins"]), tuple(s["outs"]))


def build_tables(cases):
    """d1 cases -> ufunc groups {key: [records differing in rk]}, asarray table"""
    groups, asarr, qeq = {}, {}, {}
    for c in cases:
        if "cast_table" in c:
            # the specification's same_kind table (Ufunc!SameKind), printed once by TLC
            import ufunc_replay as ur
            ur.CAST_TABLE = {tuple(x) for x in c["cast_table"]}
            continue
        s = c["hist"][0]
        if s["act"] == "ufunc":
            groups.setdefault(gkey(c["heap0"], s), []).append(s)
        elif s["act"] == "asarray":
            asarr[(c["heap0"][0], s["d"], s["cp"])] = s["st"]
        else:
            qeq[tuple(c["heap0"])] = s
    return groups, asarr, qeq


# ------------------------------------------------------------------ replay of one arrangement
def candidates(step):
    import ufunc_replay as ur
    import numpy as np
    if step["u"] == "matmul":
        return [np.matmul]
    if step["m"] in ("reduce", "accumulate", "reduceat"):
        # ufuncs NumPy can reduce on most dtypes (comparisons, ldexp, ... cannot be reduced on plain arrays either)
        good = ("add", "multiply", "maximum", "minimum", "fmax", "fmin", "logaddexp", "hypot", "logical_and",
                "logical_or", "logical_xor", "bitwise_and", "bitwise_or", "bitwise_xor", "subtract", "divide", "power")
        return [f for f in ur.BY_KIND[(2, 1)] if f.__name__ in good]
    if step["m"] == "outer":
        return ur.BY_KIND[(2, 1)]
    return ur.BY_KIND[ur.KIND_OF_U[step["u"]]]


def attempt(heap0, recs, seed, back, uf_name=None, dtypes=None, form=None, tries=6, followup=None):
    """One seeded realisation of an arrangement group.  Returns (Outcome, description dict)."""
    import ufunc_replay as ur
    rnd = random.Random(seed)
    step = recs[0]
    lookup = {tuple(r["rk"]): r for r in recs}
    cands = candidates(step)
    byname = {f.__name__: f for f in cands}
    out_idx = [o - 1 for o in step["outs"] if o]
    last = None
    if step["u"] == "matmul" and step["m"] != "call":
        o = ur.Outcome()
        o.skip = "gufunc without this method"
        return o, {}
    if step["nout"] == 2 and any(heap0[i - 1] in ("BasebandSignal", "DualPolarizationSignal") for i in step["ins"]):
        o = ur.Outcome()
        o.skip = "no two-output ufunc accepts complex input"
        return o, {}
    if step["m"] == "outer" and out_idx:
        o = ur.Outcome()
        o.skip = "outer with an out object needs an out of the outer shape"
        return o, {}
    if len(cands) <= 2:
        tries = min(tries, 2)
    for t in range(tries):
        uf = byname[uf_name] if uf_name else rnd.choice(cands)
        w = ur.build_world(heap0, rnd, back, out_idx=out_idx, dtypes={int(k): v for k, v in (dtypes or {}).items()},
                           force_full=step["m"] != "call" or step["u"] == "matmul", square=step["u"] == "matmul")
        if w is None:
            o = ur.Outcome()
            o.skip = "unrealisable"
            return o, {}
        fs = ur.forms_for(uf, step["m"], step["ins"], step["outs"], w.objs)
        fm = form if form in fs else rnd.choice(fs)
        oc = ur.run_ufunc_step(w, step, uf, fm, lookup=lookup,
                               followup=(rnd.random() < 0.3) if followup is None else followup)
        last = (oc, {"ufunc": uf.__name__, "form": fm, "info": w.info, "rk": oc.rk})
        if oc.skip is None:
            return last
    return last


def record(chk, oc, case, stats, tag):
    if oc.skip:
        stats["skipped:" + oc.skip.split(" for ")[0]] = stats.get("skipped:" + oc.skip.split(" for ")[0], 0) + 1
        return False
    chk.validated += 1
    if oc.errpath:
        stats["error_path_steps(raises on bare arrays => raises on signals)"] = \
            stats.get("error_path_steps(raises on bare arrays => raises on signals)", 0) + 1
        if oc.rec and oc.rec["st"] == "UFuncTypeError":
            stats["same_kind_refusals_checked"] = stats.get("same_kind_refusals_checked", 0) + 1
    for x in oc.rk or ():
        if x not in ("-", "!", "raise"):
            stats.setdefault("result_dtype_kinds_seen", set()).add(x)
    for n in oc.notes:
        stats[n] = stats.get(n, 0) + 1
    for key, desc in oc.bad:
        chk.violation(key, desc, case)
    return True


# ------------------------------------------------------------------ sweeps
def arrangement_sweep(chk, groups, rnd, limit, stats, deadline):
    """every generated arrangement (or a stratified sample) with seeded ufuncs / dtypes / backings"""
    keys = sorted(groups)
    if len(keys) > limit:
        # stratified by calling form so that rare forms are not drowned
        by = {}
        for k in keys:
            by.setdefault((k[1], k[2]), []).append(k)
        total = len(keys)
        keys = []
        for b in sorted(by):
            want = max(60, (limit * len(by[b])) // total)
            keys += by[b] if len(by[b]) <= want else rnd.sample(by[b], want)
    rnd.shuffle(keys)
    hit = set()
    ncov = {}
    for n, k in enumerate(keys):
        if time.time() > deadline and n >= 300:      # (a minimum is replayed however loaded the machine is)
            stats["arrangement_sweep_truncated_at"] = n
            break
        recs = groups[k]
        back = ("np", "np", "dask", "mixed")[n % 4]
        seed = rnd.randrange(1 << 31)
        oc, d = attempt(list(k[0]), recs, seed, back)
        case = {"kind": "group", "heap0": list(k[0]), "recs": recs, "seed": seed, "back": back}
        if record(chk, oc, case, stats, "arr"):
            hit.add((k, oc.rk))
            lab = "%s.%s" % (k[1], k[2])
            ncov[lab] = ncov.get(lab, 0) + 1
            stats.setdefault("ufuncs_used", set()).add(d["ufunc"])
            if oc.rec.get("sub") and oc.rec["st"] == "ok" and not oc.errpath:
                stats["subclass_resolved_cases"] = stats.get("subclass_resolved_cases", 0) + 1
                if len(chk.samples) < 2:
                    chk.sample({"note": "a later strict-subclass operand is resolved first (NumPy rule, not an alarm)",
                                "heap": d["info"], "ins": recs[0]["ins"], "outs": recs[0]["outs"], "ufunc": d["ufunc"],
                                "self": oc.rec["self"], "result": oc.rec["res"]})
            elif len(chk.samples) < 5 and n % 7 == 0:
                chk.sample({"heap": d["info"], "ufunc": d["ufunc"], "method": k[2], "form": d["form"], "ins": recs[0]["ins"],
                            "outs": recs[0]["outs"], "rk": oc.rk, "expected": {"st": oc.rec["st"], "res": oc.rec["res"]}})
    stats["arrangements_replayed_by_kind"] = ncov
    stats["arrangement_groups_total"] = len(groups)
    stats["tlc_records_hit"] = len(hit)


STD = {  # standard arrangements of the per-ufunc sweep: (heap0 with C = class under test, ins, outs)
    (1, 1): [(["C"], [1], [0]), (["C"], [1], [1]), (["C", "arr"], [1], [2]), (["arr", "C"], [1], [2])],
    (2, 1): [(["C", "arr"], [1, 2], [0]), (["arr", "C"], [1, 2], [0]), (["C", "scal"], [1, 2], [0]),
             (["scal", "C"], [1, 2], [0]), (["C", "C"], [1, 2], [0]), (["C"], [1, 1], [0]),
             (["C", "qty"], [1, 2], [0]), (["qty", "C"], [1, 2], [0]), (["C", "arr"], [1, 2], [1]),
             (["C", "scal"], [1, 2], [1]), (["C", "C", "C"], [1, 2], [3]), (["C", "dask"], [1, 2], [0]),
             (["dask", "C"], [1, 2], [0])],
    (1, 2): [(["C"], [1], [0, 0]), (["C", "C"], [1], [2, 0]), (["C", "arr"], [1], [0, 2]), (["C", "C", "C"], [1], [2, 3])],
    (2, 2): [(["C", "scal"], [1, 2], [0, 0]), (["arr", "C"], [1, 2], [0, 0]), (["C", "C"], [1, 2], [0, 0]),
             (["C", "arr", "C"], [1, 2], [3, 0]), (["C", "scal", "C", "arr"], [1, 2], [3, 4])],
}
UNAME = {(1, 1): "neg", (2, 1): "add", (1, 2): "modf", (2, 2): "divmod"}


def ufunc_sweep(chk, groups, rnd, per_combo, stats, deadline, backs, dask_share=1.0):
    """all of NumPy's ufuncs x every class x dtypes of the class x backings"""
    import ufunc_replay as ur
    menu = {"Signal": ["float64", "float32", "complex128", "complex64", "int64", "int32", "uint8", "bool", "float16", "longdouble",
                       "U4", "datetime64[s]", ">f8", ">c8", ">i2"],
            "RadioSignal": ["float64", "complex64", "int64", "bool", "float32", "uint8", ">f4", ">i2"]}
    valid, tried = {}, 0
    combos = []
    for uf in ur.UFUNCS:
        for cls in ur.SIG:
            for dt in menu.get(cls) or ur.REQ[cls]:
                for back in backs:
                    if back == "dask" and (dt in ("float16", "longdouble", "U4", "datetime64[s]") or dt[0] == ">"
                                           or rnd.random() > dask_share):
                        continue
                    combos.append((uf, cls, dt, back))
    rnd.shuffle(combos)
    import numpy as np
    dead = {}
    for n, (uf, cls, dt, back) in enumerate(combos):
        # "skip those that raise on the raw arrays for that dtype" (one probe per ufunc and dtype)
        if (uf, dt) not in dead:
            try:
                with np.errstate(all="ignore"):
                    uf(*[np.ones(2, dtype=dt)] * uf.nin)
                dead[(uf, dt)] = False
            except Exception:
                dead[(uf, dt)] = True
        if time.time() > deadline and n >= 500:
            stats["ufunc_sweep_truncated_at"] = "%d of %d" % (n, len(combos))
            break
        arrs = STD[(uf.nin, uf.nout)]
        if dead[(uf, dt)]:
            # not valid for the dtype: the same refusal is expected from the signal (one arrangement)
            stats["ufunc_dtype_combinations_invalid_on_raw"] = stats.get("ufunc_dtype_combinations_invalid_on_raw", 0) + 1
            pick = [arrs[4] if (uf.nin, uf.nout) == (2, 1) else arrs[0]] if dt not in ("U4", "datetime64[s]") else []
        else:
            pick = arrs if per_combo >= len(arrs) else rnd.sample(arrs, per_combo)
        for heap_t, ins, outs in pick:
            heap0 = [cls if d == "C" else d for d in heap_t]
            if (back == "dask") and ("dask" in heap0):
                continue
            k = (tuple(heap0), UNAME[(uf.nin, uf.nout)], "call", tuple(ins), tuple(outs))
            recs = groups.get(k)
            if recs is None:
                stats["std_arrangement_not_generated"] = stats.get("std_arrangement_not_generated", 0) + 1
                continue
            seed = rnd.randrange(1 << 31)
            dts = {str(i): dt for i, d in enumerate(heap0) if d == cls}
            oc, d = attempt(heap0, recs, seed, back, uf_name=uf.__name__, dtypes=dts, tries=2)
            tried += 1
            case = {"kind": "group", "heap0": heap0, "recs": recs, "seed": seed, "back": back,
                    "uf": uf.__name__, "dtypes": dts}
            if record(chk, oc, case, stats, "uf"):
                valid.setdefault(uf.__name__, set()).add(cls)
                stats.setdefault("ufuncs_used", set()).add(uf.__name__)
    stats["ufunc_sweep_tried"] = tried
    stats["ufuncs_total"] = len(ur.UFUNCS)
    stats["ufuncs_replayed_on_all_six_classes"] = sum(1 for v in valid.values() if len(v) == 6)
    stats["ufuncs_never_valid"] = sorted(set(f.__name__ for f in ur.UFUNCS) - set(valid))


def operator_sweep(chk, groups, rnd, stats, reps):
    """Python operator forms, directed: +x -x abs(x) ~x, x op y / y op x for every binary operator with a
    scalar, an array and a signal, and x op= y, on every class and every dtype (and byte order) it accepts,
    valid or not for the dtype (what raises on the data must raise on the signal)."""
    import ufunc_replay as ur
    menu = {"Signal": ["float64", "complex64", "int16", "uint8", "bool", ">f8", ">c8", ">i2", "int64", "float32"],
            "RadioSignal": ["float32", "complex128", "int32", "bool", ">f4", ">i2"]}
    n = 0
    for cls in ur.SIG:
        for dt in menu.get(cls) or ur.REQ[cls]:
            for back in ("np", "dask"):
                if back == "dask" and dt[0] == ">":
                    continue
                jobs = [(name, ([cls], [1], [0]), "neg", "op") for name in ur.UNOPS]
                for name in ur.BINOPS:
                    jobs += [(name, ([cls, "scal"], [1, 2], [0]), "add", "op"), (name, (["scal", cls], [1, 2], [0]), "add", "op"),
                             (name, ([cls, "arr"], [1, 2], [0]), "add", "op"), (name, ([cls], [1, 1], [0]), "add", "op")]
                for name in ur.IBINOPS:
                    jobs += [(name, ([cls, "scal"], [1, 2], [1]), "add", "iop"), (name, ([cls, "arr"], [1, 2], [1]), "add", "iop"),
                             (name, ([cls, cls], [1, 2], [1]), "add", "iop")]
                if reps < 1:
                    jobs = [j for j in jobs if j[0] in ur.UNOPS or rnd.random() < (reps if j[3] == "op" else 2.5 * reps)]
                for name, (heap0, ins, outs), uname, form in jobs:
                    recs = groups.get((tuple(heap0), uname, "call", tuple(ins), tuple(outs)))
                    if recs is None:
                        continue
                    seed = rnd.randrange(1 << 31)
                    dts = {str(i): dt for i, d in enumerate(heap0) if d == cls}
                    oc, d = attempt(heap0, recs, seed, back, uf_name=name, dtypes=dts, form=form, tries=1, followup=True)
                    case = {"kind": "group", "heap0": heap0, "recs": recs, "seed": seed, "back": back,
                            "uf": name, "dtypes": dts, "form": form, "followup": True}
                    if record(chk, oc, case, stats, "op"):
                        n += 1
    stats["operator_forms_replayed"] = n


def operand_kind_sweep(chk, groups, rnd, stats, picks):
    """Operand KIND as a generated dimension: every operand type without __array_ufunc__ (Python numbers,
    every NumPy scalar type incl. np.bool_ / datetime64 / timedelta64 / str_, 0-d arrays, list, tuple, range,
    array.array, memoryview) and Quantity, in both operand orders, as a ufunc argument, as an operator
    operand and as the right side of an in-place operator, on every class.  The outcome - values or
    exception - must be the one the same call has on the bare arrays (TLC record ok / InnerError)."""
    import ufunc_replay as ur
    menu = {"Signal": ["float64", "int16", "bool", "complex64", "datetime64[s]"], "RadioSignal": ["float32", "int64"]}
    forms = [("add", "func", 0), ("add", "op", 0), ("multiply", "op", 0), ("subtract", "func", 0), ("less", "op", 0),
             ("equal", "func", 0), ("logical_and", "func", 0), ("maximum", "func", 0), ("power", "op", 0),
             ("bitwise_or", "op", 0), ("add", "iop", 1), ("multiply", "kw", 1), ("divmod", "func", 2)]
    n = 0
    seen = {}
    for cls in ur.SIG:
        for dt in menu.get(cls) or ur.REQ[cls][:1]:
            for kname in [k for k, _ in ur.SCAL_KINDS] + ["qty"]:
                for order in (0, 1):
                    for uname, form, outk in (forms if picks >= len(forms) else rnd.sample(forms, picks)):
                        other = "qty" if kname == "qty" else "scal"
                        heap0 = [cls, other] if order == 0 else [other, cls]
                        if outk == 1 and order == 1:
                            continue                      # the in-place / out target is the signal
                        ins, outs, u = [1, 2], [0], "add"
                        if outk == 1:
                            outs = [1]
                        if outk == 2:
                            outs, u = [0, 0], "divmod"
                        recs = groups.get((tuple(heap0), u, "call", tuple(ins), tuple(outs)))
                        if recs is None:
                            continue
                        seed = rnd.randrange(1 << 31)
                        back = "dask" if (rnd.random() < 0.15 and dt != "datetime64[s]") else "np"
                        dts = {str(heap0.index(cls)): dt}
                        if other == "scal":
                            dts[str(heap0.index("scal"))] = "kind:" + kname
                        oc, d = attempt(heap0, recs, seed, back, uf_name=uname, dtypes=dts, form=form, tries=1)
                        case = {"kind": "group", "heap0": heap0, "recs": recs, "seed": seed, "back": back,
                                "uf": uname, "dtypes": dts, "form": form}
                        if record(chk, oc, case, stats, "kind"):
                            n += 1
                            key = kname + (":err" if oc.errpath else ":ok")
                            seen[key] = seen.get(key, 0) + 1
    stats["operand_kind_replays"] = n
    stats["operand_kinds_with_a_computed_result"] = sorted(k[:-3] for k in seen if k.endswith(":ok"))
    stats["operand_kinds_only_refused_by_numpy_itself"] = sorted(
        k[:-4] for k in seen if k.endswith(":err") and (k[:-4] + ":ok") not in seen)


def attempt_chain(case, seed, back):
    """in-place chain (three steps, the last one possibly a conversion) on one world"""
    import ufunc_replay as ur
    import numpy as np
    rnd = random.Random(seed)
    heap0, hist = case["heap0"], case["hist"]
    targets = [o - 1 for s in hist if s["act"] == "ufunc" for o in s["outs"] if o]
    bad, used, nsteps = [], [], 0
    w = ur.build_world(heap0, rnd, back, out_idx=targets, force_full=True)
    if w is None:
        return None, [], 0
    for s in hist:
        if s["act"] == "ufunc":
            cands = ur.BY_KIND[ur.KIND_OF_U[s["u"]]]
            oc = None
            for t in range(8):
                uf = rnd.choice(cands)
                fs = ur.forms_for(uf, "call", s["ins"], s["outs"], w.objs)
                fm = "iop" if ("iop" in fs and rnd.random() < 0.6) else rnd.choice(fs)
                oc = ur.run_ufunc_step(w, s, uf, fm)
                if oc.errpath:
                    # refused on the bare arrays: must be refused on the signals, both worlds stay as they were
                    bad += [(k, m + " | after " + " -> ".join(used)) for k, m in oc.bad]
                    nsteps += 1 if oc.skip is None else 0
                    continue
                if oc.skip is None:
                    used.append("%s/%s" % (uf.__name__, fm))
                    break
            if oc.skip is not None or oc.errpath:
                return "raw raises", bad, nsteps
            bad += oc.bad
            nsteps += 1
        else:
            sig, raw = w.objs[s["ins"][0] - 1], w.raws[s["ins"][0] - 1]
            own = ur.dk_of(sig.dtype)
            d = s["d"]
            if d != "none" and d == own:
                pass
            bad += judge_asarray(sig, raw, s["d"], s["cp"], "array", None, chain=True)
            nsteps += 1
    return None, [(k, m + " | chain " + " -> ".join(used)) for k, m in bad], nsteps


def judge_asarray(sig, raw, d, cp, func, spec_st, chain=False):
    """np.asarray / np.array of a signal must be what the same call gives on its data"""
    import ufunc_replay as ur
    import numpy as np
    want, e0, got, e1, kw, changed = ur.run_asarray(sig, raw, d, cp, func)
    where = "np.%s(%s<%s,%s>, %s)" % (func, type(sig).__name__, sig.dtype, type(sig.data).__name__,
                                      ", ".join("%s=%s" % (k, getattr(v, "__name__", v)) for k, v in kw.items()))
    bad = []
    if e0 is not None:
        # the request is impossible on the data itself (e.g. copy=False with a cast): it must fail on the signal too
        if e1 is None:
            bad.append(("asarray:not-refused", "%s returned %r although the same call on .data raises %r" % (where, got, e0)))
        return bad
    if spec_st is not None and spec_st != "ok":
        return [("SKIP", "numpy accepts what the spec refuses")]
    if e1 is not None:
        key = "asarray:dtype" if "dtype" in kw and isinstance(e1, TypeError) else \
              "asarray:copy-false" if kw.get("copy") is False else "asarray:raised"
        bad.append((key, "%s raises %r; on .data it yields %s %s" % (where, e1, type(want).__name__, want.dtype)))
        return bad
    dv = ur.same_values(got, want)
    if dv:
        bad.append(("asarray:values", "%s differs from the same call on .data: %s" % (where, dv)))
    if changed:
        bad.append(("asarray:input-modified", "%s modified the signal: %s" % (where, changed)))
    if len(sig) != len(raw):
        bad.append(("len", "len(sig) = %d, len(sig.data) = %d" % (len(sig), len(raw))))
    return bad


def asarray_sweep(chk, asarr, rnd, stats, thorough):
    import ufunc_replay as ur
    import numpy as np
    menu = {"Signal": ["float64", "float32", "complex128", "int64", "bool"], "RadioSignal": ["float64", "complex64", "int32"]}
    n = 0
    for cls in ur.SIG:
        spec_default = {"IntensitySignal": "f8", "FullStokesSignal": "f8", "BasebandSignal": "c16",
                        "DualPolarizationSignal": "c16"}.get(cls, "f8")
        for dt in menu.get(cls) or ur.REQ[cls]:
            for back in ("np", "dask"):
                seed = rnd.randrange(1 << 31)
                w = ur.build_world([cls], random.Random(seed), back, dtypes={0: dt})
                sig, raw = w.objs[0], w.raws[0]
                own = ur.dk_of(sig.dtype)
                for d in ("none", "f4", "f8", "c8", "c16"):
                    for cp in ("none", "true", "false"):
                        for func in ("asarray", "array"):
                            if func == "asarray" and cp == "false":
                                continue
                            # the spec's record for this class of request: dtype absent / own dtype / another dtype
                            sd = "none" if d == "none" else spec_default if d == own else \
                                next(x for x in ("f4", "c8", "f8", "c16") if x != spec_default and (cls, x, cp) in asarr)
                            st = asarr.get((cls, sd, cp))
                            if st is None:
                                stats["asarray_no_record"] = stats.get("asarray_no_record", 0) + 1
                                continue
                            bad = judge_asarray(sig, raw, d, cp, func, st)
                            if bad and bad[0][0] == "SKIP":
                                stats["asarray_backing_dependent"] = stats.get("asarray_backing_dependent", 0) + 1
                                continue
                            n += 1
                            chk.validated += 1
                            for key, desc in bad:
                                chk.violation(key, desc, {"kind": "asarray", "cls": cls, "dtype": dt, "back": back, "d": d,
                                                          "cp": cp, "func": func, "seed": seed, "st": st})
    stats["asarray_calls_compared"] = n


def qty_eq_sweep(chk, qeq, rnd, stats, reps):
    """Quantity == Signal, Quantity != Signal: astropy's own operators (modelled, see Ufunc!QtyEqStep)"""
    import ufunc_replay as ur
    n = 0
    for heap0 in sorted(qeq):
        for rep in range(reps):
            for back in ("np", "dask"):
                for op in ("eq", "ne"):
                    seed = rnd.randrange(1 << 31)
                    w = ur.build_world(list(heap0), random.Random(seed), back)
                    bad = ur.run_qty_eq(w, qeq[heap0], op)
                    if bad is None:
                        continue
                    n += 1
                    chk.validated += 1
                    case = {"kind": "qty_eq", "heap0": list(heap0), "step": qeq[heap0], "op": op,
                            "seed": seed, "back": back}
                    for key, desc in bad:
                        chk.violation(key, desc, case)
                    if not bad:
                        # behaves exactly as modelled (Ufunc!QtyEqStep): values right, result NOT wrapped as a
                        # signal -- a literal deviation from C17 that pulsarbat cannot repair (astropy's
                        # Quantity.__eq__/__ne__ never dispatch to the signal): listed known finding
                        chk.violation("quantity-eq-signal-unwrapped",
                                      "Quantity %s Signal returns a plain array instead of a signal" % op, case)
    stats["quantity_eq_operator_unwrapped(astropy-defined, documented)"] = n


def chain_sweep(chk, chains, rnd, limit, stats, deadline):
    if len(chains) > limit:
        chains = rnd.sample(chains, limit)
    done = steps = 0
    for n, c in enumerate(chains):
        if time.time() > deadline and n >= 100:
            stats["chain_sweep_truncated_at"] = n
            break
        seed = rnd.randrange(1 << 31)
        back = ("np", "dask", "np", "mixed")[n % 4]
        skip, bad, ns = attempt_chain(c, seed, back)
        if skip:
            stats["skipped:chain " + skip] = stats.get("skipped:chain " + skip, 0) + 1
            for key, desc in bad:       # error-path steps met before the chain was given up
                chk.violation("chain:" + key, desc, {"kind": "chain", "case": c, "seed": seed, "back": back})
            continue
        done += 1
        steps += ns
        chk.validated += 1
        for key, desc in bad:
            chk.violation(key if key.startswith("asarray:") else "chain:" + key, desc,
                          {"kind": "chain", "case": c, "seed": seed, "back": back})
        if n == 0:
            chk.sample({"chain": [{k: s[k] for k in ("act", "u", "ins", "outs", "d", "cp", "st")} for s in c["hist"]],
                        "heap0": c["heap0"]})
    stats["chains_replayed"] = done
    stats["chain_steps"] = steps


# ------------------------------------------------------------------ run
def run(chk):
    thorough = chk.tier == "thorough"
    rnd = random.Random(chk.seed)
    t0 = time.time()
    stats = {}
    pool = cf.ThreadPoolExecutor(6)
    # generation first (the replay needs it); model checking, the negative models and the
    # repository's tests under the tracer run in the background while the replay goes on
    g1 = pool.submit(gen_cases, chk, "d1", "Gen_Ufunc_d1.cfg" if thorough else "Gen_Ufunc_d1q.cfg", 8)
    g2 = pool.submit(gen_cases, chk, "chain", "Gen_Ufunc_chain.cfg", 6)
    jobs = {}
    mcs = ["MC_Ufunc_full.cfg", "MC_Ufunc_chain_full.cfg"] if thorough else ["MC_Ufunc_quick.cfg", "MC_Ufunc_chain_quick.cfg"]
    negs = sorted(NEGS) if thorough else sorted({sorted(NEGS)[chk.seed % len(NEGS)], "pinned_array", "cast_unsafe"})
    d1, chains = g1.result(), g2.result()
    chains.sort(key=lambda c: json.dumps(c, sort_keys=True))     # TLC's output order depends on worker timing
    for cfg in mcs:
        jobs[cfg] = pool.submit(tlc.run, "MC_Ufunc", cfg, workers=6 if thorough else 4, timeout=2400, heap=HEAP)
    for v in negs:
        jobs["Neg_Ufunc_%s.cfg" % v] = pool.submit(tlc.run, "MC_Ufunc", "Neg_Ufunc_%s.cfg" % v, workers=2, timeout=600,
                                                   heap=HEAP)
    groups, asarr, qeq = build_tables(d1)
    repo_job = None
    try:
        import ufunc_trace
        repo_job = pool.submit(ufunc_trace.repo_test_events, chk)
        ufunc_trace.start(chk.seed, 1.0 if thorough else 0.4, 40000 if thorough else 5000)
    except ImportError:
        pass
    stats["generated_d1_records"] = len(d1)
    stats["generated_chains"] = len(chains)
    # sizes are counts (deterministic for a seed); the deadlines only guard against an overloaded machine
    end = t0 + (800 if thorough else 105)
    asarray_sweep(chk, asarr, rnd, stats, thorough)
    qty_eq_sweep(chk, qeq, rnd, stats, 6 if thorough else 2)
    operator_sweep(chk, groups, rnd, stats, 1 if thorough else 0.1)
    operand_kind_sweep(chk, groups, rnd, stats, 99 if thorough else 2)
    ufunc_sweep(chk, groups, rnd, 99 if thorough else 2, stats, t0 + (420 if thorough else 75),
                ("np", "dask"), 1.0 if thorough else 0.12)
    arrangement_sweep(chk, groups, rnd, 10 ** 9 if thorough else 1800, stats, t0 + (680 if thorough else 92))
    chain_sweep(chk, chains, rnd, 5000 if thorough else 350, stats, end)
    trace_part(chk, rnd, stats, thorough, repo_job)
    stats["ufuncs_used"] = len(stats.get("ufuncs_used", ()))
    stats["result_dtype_kinds_seen"] = sorted(stats.get("result_dtype_kinds_seen", ()))
    # collect the model-checking results
    allok = True
    for name, fut in jobs.items():
        try:
            r = fut.result()
        except tlc.TLCError as e:
            chk.machinery_errors.append("%s: %s" % (name, str(e)[-1500:]))
            allok = False
            continue
        if name.startswith("Neg_"):
            chk.add_tlc(name, r)
            want = NEGS[name[len("Neg_Ufunc_"):-4]]
            if r.violation not in (want if isinstance(want, tuple) else (want,)):
                chk.machinery_errors.append("negative model %s: TLC reported %r, expected violation of %s"
                                            % (name, r.violation, want))
        else:
            chk.mc_must_hold(name, r)
            allok = allok and r.ok
    chk.exhaustive = allok
    chk.notes.update(stats)
    chk.notes["negative_models_rejected"] = sorted(n for n in jobs if n.startswith("Neg_"))
    chk.assumptions += [
        "TLC explores spec/Ufunc.tla exhaustively only within the stated constants (<= 4 operands, chains of 3)",
        "Quantity.__array_ufunc__ and dask Array.__array_ufunc__ return NotImplemented when a Signal is among the "
        "operands (astropy 8 / dask 2026.8 behaviour, confirmed by every replayed mixed arrangement and traced event)",
        "the value of App(u, k, operands) is NumPy's own ufunc on the raw arrays (NumPy is the oracle for values)",
        "naming of dtypes (ufunc_replay.dk_of) and construction of operands (ufunc_replay.build_world)"]


def trace_part(chk, rnd, stats, thorough, repo_job):
    try:
        import ufunc_trace
    except ImportError:
        stats["trace"] = "not built"
        return
    ufunc_trace.run(chk, rnd, stats, thorough, repo_job)


# ------------------------------------------------------------------ replay of a stored violation
def replay(doc):
    import ufunc_replay as ur
    c = doc["case"]
    bad = []
    if c["kind"] == "group":
        oc, d = attempt(c["heap0"], c["recs"], c["seed"], c["back"], uf_name=c.get("uf"), dtypes=c.get("dtypes"),
                        form=c.get("form"), tries=(1 if c.get("form") else 2) if c.get("uf") else 6,
                        followup=c.get("followup"))
        print("replayed:", d, "skip:", oc.skip)
        bad = oc.bad
    elif c["kind"] == "chain":
        skip, bad, ns = attempt_chain(c["case"], c["seed"], c["back"])
        bad = [(k if k.startswith("asarray:") else "chain:" + k, m) for k, m in bad]
    elif c["kind"] == "asarray":
        w = ur.build_world([c["cls"]], random.Random(c["seed"]), c["back"], dtypes={0: c["dtype"]})
        bad = judge_asarray(w.objs[0], w.raws[0], c["d"], c["cp"], c["func"], c["st"])
    elif c["kind"] == "qty_eq":
        w = ur.build_world(c["heap0"], random.Random(c["seed"]), c["back"])
        bad = ur.run_qty_eq(w, c["step"], c["op"]) or []
    elif c["kind"] == "trace":
        import ufunc_trace
        return ufunc_trace.replay(doc)
    bad = [b for b in bad if b[0] == doc["key"]] or bad
    for k, m in bad:
        print("VIOLATION property=%s replay=(this case)  # %s: %s" % (PID, k, m))
    if not bad:
        print("case passes")
    return 1 if bad else 0
