"""C09 code -> trace: external instrumentation of pulsarbat's public API.

`install()` wraps the public transforms, signal methods and conversions; every
outermost call made on a signal is recorded as one event for
spec/Trace_Dask.tla: class of the call, container / chunks / interned metadata
of the signal before and after, and the number of Dask tasks executed in this
process before and after (dask_sched.install_task_counter; the repository's
tests do not use sentinel inputs, so *any* task execution during graph
construction is counted).  Loaded as a pytest plugin (-p dask_tracer) it traces
the repository's own tests and writes the events to $C09_TRACE_OUT."""
import functools
import json
import os
import threading

import numpy as np
import dask.array as da

EVENTS = []
_TLS = threading.local()


def _depth():
    return getattr(_TLS, "d", 0)


def _signals(args, pb):
    out = []
    for a in args:
        if isinstance(a, pb.Signal):
            out.append(a)
        elif isinstance(a, (list, tuple)):
            out += [x for x in a if isinstance(x, pb.Signal)]
    return out


def _wrap(fn, ev, kind, pb, dr, ds):
    @functools.wraps(fn)
    def wrapper(*args, **kwargs):
        if _depth() > 0:
            return fn(*args, **kwargs)
        sigs = _signals(args, pb)
        if not sigs:
            return fn(*args, **kwargs)
        pre = dr.summary(sigs[0])
        if any(isinstance(s.data, da.Array) for s in sigs) and pre["back"] != "dask":
            d = [s for s in sigs if isinstance(s.data, da.Array)][0]
            pre = dr.summary(d)
        n0 = ds.task_count()
        _TLS.d = 1
        try:
            out = fn(*args, **kwargs)
        except ValueError as e:
            if "single chunk" in str(e):
                EVENTS.append(dr.event(ev, kind, _axis_arg(ev, kwargs), True, pre, pre, n0, ds.task_count(), n0, ds.task_count()))
            raise
        finally:
            _TLS.d = 0
        n1 = ds.task_count()
        res = out[0] if isinstance(out, tuple) and out else out
        if kind == "run" and ev == "asarray":
            EVENTS.append(dr.event(ev, kind, [], False, pre, dr.summary(sigs[0]), n0, n1, n0, n1))
        elif isinstance(res, pb.Signal):
            EVENTS.append(dr.event(ev, kind, [], False, pre, dr.summary(res), n0, n1, n0, n1))
        return out
    wrapper.__c09_wrapped__ = True
    return wrapper


def _axis_arg(ev, kwargs):
    return []


def install():
    import pulsarbat as pb
    import dask_replay as dr
    import dask_sched as ds
    ds.install_task_counter()
    if getattr(pb, "__c09_traced__", False):
        return
    pb.__c09_traced__ = True
    funcs = {"time_shift": "time_shift", "freq_shift": "freq_shift", "snippet": "snippet", "fast_len": "tslice",
             "concatenate": "splitcat", "coherent_dedispersion": "coh_dd", "incoherent_dedispersion": "incoh_dd"}
    mods = [pb, pb.transforms, pb.transforms.transforms, pb.transforms.dedispersion]
    for name, ev in funcs.items():
        w = None
        for m in mods:
            if hasattr(m, name) and not getattr(getattr(m, name), "__c09_wrapped__", False):
                w = w or _wrap(getattr(m, name), ev, "transform", pb, dr, ds)
                setattr(m, name, w)
    for name in ("stft", "istft"):
        w = _wrap(getattr(pb.contrib.misc, name), name, "transform", pb, dr, ds)
        setattr(pb.contrib.misc, name, w)
        setattr(pb.contrib, name, w)
    for cls in (pb.Signal, pb.RadioSignal, pb.FullStokesSignal):
        cls.__getitem__ = _wrap(cls.__dict__["__getitem__"], "tslice", "transform", pb, dr, ds)
    pb.Signal.__array_ufunc__ = _wrap(pb.Signal.__dict__["__array_ufunc__"], "ufunc", "transform", pb, dr, ds)
    pb.BasebandSignal.to_intensity = _wrap(pb.BasebandSignal.__dict__["to_intensity"], "to_intensity", "transform", pb, dr, ds)
    for name in ("to_linear", "to_circular", "to_stokes"):
        setattr(pb.DualPolarizationSignal, name,
                _wrap(pb.DualPolarizationSignal.__dict__[name], name, "transform", pb, dr, ds))
    for name, ev, kind in (("compute", "compute", "run"), ("persist", "persist", "run"),
                           ("to_dask_array", "to_dask", "container"), ("rechunk", "rechunk", "container"),
                           ("__array__", "asarray", "run")):
        setattr(pb.Signal, name, _wrap(pb.Signal.__dict__[name], ev, kind, pb, dr, ds))


def dump(path):
    for i, e in enumerate(EVENTS):
        e["id"] = i
    with open(path, "w") as f:
        json.dump(EVENTS, f)


# ---- pytest plugin hooks
def pytest_configure(config):
    install()


def pytest_unconfigure(config):
    out = os.environ.get("C09_TRACE_OUT")
    if out:
        dump(out)
