"""Runs the repository's own test-suite under the external tracer (code -> Trace)."""
import json
import os
import subprocess

import framework

HERE = os.path.dirname(os.path.abspath(__file__))
REPO = os.environ.get("VERIF_REPO", "/repo")


def trace_suite(chk, tests="tests", timeout=1800):
    """returns the list of recorded events (or [] and a machinery error)"""
    scr = os.path.join(framework.ROOT, ".scratch")
    os.makedirs(scr, exist_ok=True)
    out = os.path.join(scr, "suite_%d.json" % os.getpid())
    env = dict(os.environ)
    env.update({"PULSARBAT_VERIF_TRACE": "1", "PULSARBAT_VERIF_TRACE_OUT": out,
                "PYTHONPATH": HERE + os.pathsep + REPO})
    cmd = ["/venv/bin/python", "-W", "ignore", "-m", "pytest", "-q", "-p", "no:cacheprovider",
           "-p", "verif_pytest_plugin", "--timeout=900", "-x" if False else "-q", tests]
    p = subprocess.run(cmd, cwd=REPO, env=env, stdout=subprocess.PIPE, stderr=subprocess.STDOUT, text=True,
                       timeout=timeout)
    if not os.path.exists(out):
        chk.machinery_errors.append("traced test-suite produced no trace:\n" + p.stdout[-2000:])
        return []
    with open(out) as f:
        ev = json.load(f)
    os.remove(out)
    chk.notes["suite_summary"] = p.stdout.strip().splitlines()[-1] if p.stdout.strip() else ""
    chk.notes["suite_events"] = len(ev)
    terr = [e for e in ev if e.get("tracer_error")]
    if terr:
        chk.notes["suite_tracer_errors"] = len(terr)
    return ev


def validate_frame(chk, events):
    """C14 over the traced suite: TLC (Trace_Alias) decides every event."""
    import trace_util
    slim = [{k: e[k] for k in ("id", "ev", "op", "argbuf", "pre", "post", "mpre", "mpost")} for e in events
            if not e.get("tracer_error")]
    for i, e in enumerate(slim):
        e["id"] = i
    src = [e for e in events if not e.get("tracer_error")]
    rejected, n = trace_util.validate("Trace_Alias", slim, batch=4000, chk=chk, name="suite-frame")
    chk.validated += n
    for e, failed in rejected:
        full = src[e["id"]]
        chk.violation("suite:%s:%s" % (full["api"], "+".join(sorted(failed))),
                      "during %s the call %s changed an argument (%s)" % (full.get("test", ""), full["api"], failed),
                      {"kind": "suite", "api": full["api"], "test": full.get("test", "")})
    return n


def validate_slices(chk, events):
    """C01 over the traced suite: every time slice the tests perform."""
    import trace_util
    sl = []
    for e in events:
        s = e.get("slice")
        if s:
            s = dict(s)
            s.pop("utc", None)
            s["id"] = len(sl)
            s["_api"], s["_test"] = e["api"], e.get("test", "")
            sl.append(s)
    slim = [{k: v for k, v in s.items() if not k.startswith("_")} for s in sl]
    rejected, n = trace_util.validate("Trace_Slice", slim, batch=2000, chk=chk, name="suite-slices")
    chk.validated += n
    for e, failed in rejected:
        full = sl[e["id"]]
        chk.violation("suite-slice:" + "+".join(sorted(failed)),
                      "a time slice performed by %s: %s" % (full["_test"], failed),
                      {"kind": "suite", "api": full["_api"], "test": full["_test"]})
    return n


def validate_contract(chk, events):
    n = 0
    for e in events:
        if e.get("tracer_error"):
            continue
        n += 1
        if e["contract"]:
            chk.violation("suite-contract:%s" % e["api"], "result of %s during %s violates the class contract: %s"
                          % (e["api"], e.get("test", ""), e["contract"]),
                          {"kind": "suite", "api": e["api"], "test": e.get("test", "")})
    chk.validated += n
    return n
