"""pytest plugin (-p ufunc_trace_plugin): trace Signal.__array_ufunc__ while the
repository's own tests run; events are written to $C17_TRACE_OUT at session end."""
import json
import os

import ufunc_trace

_TR = ufunc_trace.Tracer(rate=1.0, seed=0)


def pytest_sessionstart(session):
    _TR.install()


def pytest_sessionfinish(session, exitstatus):
    _TR.uninstall()
    out = os.environ.get("C17_TRACE_OUT")
    if out:
        with open(out, "w") as f:
            json.dump(_TR.events, f)
