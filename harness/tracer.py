"""External instrumentation of pulsarbat's public API (no source hooks).

Enabled only when PULSARBAT_VERIF_TRACE=1.  install() wraps the public
callables from outside; every OUTERMOST public call becomes one event holding
byte-wise hashes of every array / signal / Quantity argument before and after the
call (C14), the contract verdict of every returned signal (C16) and, for time
slices, the exact slice ledger (C01).  Nested calls (snippet -> time_shift ->
__getitem__) are attributed to the outermost call.  Events are logged in a
`finally`, so the error path is recorded too."""
import functools
import hashlib
import json
import os
import threading

import numpy as np

EVENTS = []
_state = threading.local()
_installed = False


def _h(b):
    return hashlib.blake2b(b, digest_size=10).hexdigest()


def _base(a):
    while isinstance(getattr(a, "base", None), np.ndarray):
        a = a.base
    return a


def _collect(objs, pb, u, Time, da):
    """flat list of (kind, object) for everything hashable among args"""
    out = []

    def rec(x, depth=0):
        if depth > 3:
            return
        if isinstance(x, pb.Signal):
            out.append(("sig", x))
        elif isinstance(x, u.Quantity):
            out.append(("arr", np.asarray(x.value)))
        elif isinstance(x, Time):
            out.append(("arr", np.asarray(x.jd1)))
            out.append(("arr", np.asarray(x.jd2)))
        elif isinstance(x, np.ndarray):
            out.append(("arr", x))
        elif isinstance(x, (list, tuple)):
            for i in x:
                rec(i, depth + 1)
        elif isinstance(x, dict):
            for i in x.values():
                rec(i, depth + 1)
    rec(objs)
    return out


def _arr_hash(a, da):
    if isinstance(a, da.Array):
        return "dask:" + a.name
    if a.dtype == object:
        return "obj"
    b = _base(a)
    try:
        return _h(np.ascontiguousarray(b).tobytes() + str((a.shape, a.strides, a.dtype)).encode())
    except Exception:
        return "unhashable"


def _meta_hash(s, common):
    sn = common.snapshot(s)
    sn.pop("data", None)
    sn.pop("id_data", None)
    return _h(repr(sorted(sn.items(), key=lambda kv: kv[0])).encode())


def wrap(name, fn, target_of=None):
    """target_of(args, kwargs) -> list of objects the call is allowed to mutate"""
    import common
    from common import pb, u, Time, da

    @functools.wraps(fn)
    def wrapper(*args, **kwargs):
        d = getattr(_state, "depth", 0)
        if d > 0 or os.environ.get("PULSARBAT_VERIF_TRACE") != "1":
            _state.depth = d + 1
            try:
                return fn(*args, **kwargs)
            finally:
                _state.depth = d
        _state.depth = 1
        items = _collect((args, kwargs), pb, u, Time, da)
        pre = [(_arr_hash(o.data if k == "sig" else o, da)) for k, o in items]
        mpre = [(_meta_hash(o, common) if k == "sig" else "") for k, o in items]
        targets = target_of(args, kwargs) if target_of else []
        tidx = [i for i, (k, o) in enumerate(items) if any(o is t for t in targets)]
        result, raised = None, ""
        try:
            result = fn(*args, **kwargs)
            return result
        except BaseException as e:  # noqa
            raised = type(e).__name__
            raise
        finally:
            _state.depth = 0
            try:
                post = [(_arr_hash(o.data if k == "sig" else o, da)) for k, o in items]
                mpost = [(_meta_hash(o, common) if k == "sig" else "") for k, o in items]
                contract = []
                res = result if isinstance(result, (tuple, list)) else [result]
                for r in res:
                    if isinstance(r, pb.Signal):
                        contract += common.contract(r)
                ev = {"id": len(EVENTS), "ev": "call", "op": "api_ufunc_out" if tidx else "api_call",
                      "api": name, "argbuf": 0,
                      "pre": [{"b": (0 if i in tidx else i + 1), "h": h} for i, h in enumerate(pre)],
                      "post": [{"b": (0 if i in tidx else i + 1), "h": h} for i, h in enumerate(post)],
                      "mpre": mpre, "mpost": mpost, "raised": raised, "contract": contract,
                      "test": os.environ.get("PYTEST_CURRENT_TEST", "")}
                if name.endswith("__getitem__") and not raised and isinstance(result, pb.Signal):
                    sl = _slice_event(args, result, common)
                    if sl:
                        ev["slice"] = sl
                EVENTS.append(ev)
            except Exception as e:  # noqa  (instrumentation must never change behaviour)
                EVENTS.append({"id": len(EVENTS), "ev": "call", "op": "api_call", "api": name, "argbuf": 0, "pre": [],
                               "post": [], "mpre": [], "mpost": [], "raised": raised, "contract": [],
                               "tracer_error": repr(e)})
    wrapper.__verif_wrapped__ = True
    return wrapper


def _slice_event(args, r, common):
    import exact
    z, index = args[0], args[1]
    if not isinstance(index, tuple):
        index = (index,)
    if not index or not isinstance(index[0], slice):
        return None
    s = index[0]
    try:
        vals = [None if v is None else int(v) for v in (s.start, s.stop, s.step)]
    except Exception:
        return None
    if vals[2] is not None and vals[2] <= 0:
        return None

    def bd(x):
        return {"none": x is None, "v": exact.big(0 if x is None else x)}
    hasT, hasT1 = z.start_time is not None, r.start_time is not None
    return {"ev": "time_slice", "n": exact.big(len(z)), "a": bd(vals[0]), "b": bd(vals[1]), "c": bd(vals[2]),
            "rate": exact.rat(common.hz(z.sample_rate)), "hasT": hasT,
            "t": exact.rat(common.time_days(z.start_time) if hasT else 0),
            "n1": exact.big(len(r)), "rate1": exact.rat(common.hz(r.sample_rate)), "hasT1": hasT1,
            "t1": exact.rat(common.time_days(r.start_time) if hasT1 else 0),
            "stop1": exact.rat(common.time_days(r.stop_time) if hasT1 else 0),
            "utc": bool(hasT and z.start_time.scale == "utc")}


def install():
    """Wrap the public API (idempotent)."""
    global _installed
    if _installed:
        return
    _installed = True
    import pulsarbat as pb
    import pulsarbat.transforms.transforms as T
    import pulsarbat.transforms.dedispersion as D
    import pulsarbat.contrib.misc as M
    for mod, names in ((T, ["concatenate", "snippet", "time_shift", "freq_shift", "fast_len"]),
                       (D, ["coherent_dedispersion", "incoherent_dedispersion"]),
                       (M, ["stft", "istft"])):
        for n in names:
            w = wrap(n, getattr(mod, n))
            setattr(mod, n, w)
            for holder in (pb, pb.transforms, pb.contrib):
                if getattr(holder, n, None) is not None and not getattr(getattr(holder, n), "__verif_wrapped__", False):
                    if getattr(holder, n).__name__ == n:
                        setattr(holder, n, w)
    for cls in (pb.Signal, pb.RadioSignal, pb.FullStokesSignal):
        if "__getitem__" in cls.__dict__:
            setattr(cls, "__getitem__", wrap(cls.__name__ + ".__getitem__", cls.__dict__["__getitem__"]))
    for cls, names in ((pb.Signal, ["compute", "persist", "to_dask_array", "rechunk", "contains"]),
                       (pb.BasebandSignal, ["to_intensity"]),
                       (pb.DualPolarizationSignal, ["to_linear", "to_circular", "to_stokes"])):
        for n in names:
            setattr(cls, n, wrap(cls.__name__ + "." + n, cls.__dict__[n]))

    # dispersion measure, predictor and reader entry points: their array / Quantity / Time arguments are
    # hashed before and after the call like everything else
    import pulsarbat.pulsar.predictor as PR
    import pulsarbat.readers._base as RB
    for cls, names in ((D.DispersionMeasure, ["time_delay", "sample_delay", "chirp_function", "chirp_from_signal"]),
                       (PR.PhasePredictor, ["__call__", "f0", "phasepol", "time_at"]),
                       (RB.BaseReader, ["read", "dask_read", "offset_at", "time_at", "contains"])):
        for n in names:
            if n in cls.__dict__:
                setattr(cls, n, wrap(cls.__name__ + "." + n, cls.__dict__[n]))

    def ufunc_targets(args, kwargs):
        out = kwargs.get("out")
        if out is None:
            return []
        return [o for o in (out if isinstance(out, tuple) else (out,)) if o is not None]
    pb.Signal.__array_ufunc__ = wrap("Signal.__array_ufunc__", pb.Signal.__dict__["__array_ufunc__"], ufunc_targets)


def dump(path):
    with open(path, "w") as f:
        json.dump(EVENTS, f)
