"""./check --extra : behaviours outside the twenty listed properties (spec/Api.tla), replayed on the real
classes.  Specification growth only: nothing here is registered in MANIFEST.json and a mismatch is
reported as EXTRA-MISMATCH (exit 3), never as a property VIOLATION."""
import json
import os
import sys

import numpy as np

import tlc
import framework

SCR = os.path.join(framework.ROOT, ".scratch")


def build(cls, ndim):
    import common
    from common import pb, u, Time
    base = {"Signal": (6,), "FullStokesSignal": (6, 2, 4), "DualPolarizationSignal": (6, 2, 2)}.get(cls, (6, 2))
    shape = base + (3,) * (ndim - len(base))
    dt = complex if cls in ("BasebandSignal", "DualPolarizationSignal") else float
    kw = dict(sample_rate=1 * u.MHz, start_time=Time("2021-01-01T00:00:00"), meta={"k": 1})
    if cls != "Signal":
        kw["center_freq"] = 1 * u.GHz
    if cls in ("RadioSignal", "IntensitySignal", "FullStokesSignal"):
        kw["chan_bw"] = 1 * u.MHz
    if cls == "DualPolarizationSignal":
        kw["pol_type"] = "linear"
    return common.CLASSES[cls](np.ones(shape, dt), **kw)


def perform(z, k, a):
    import common
    from common import pb
    if k == "get_axis_int":
        return z.get_axis(np.int64(int(a)) if int(a) % 2 else int(a))
    if k == "get_axis_label":
        return z.get_axis(json.loads(a))
    if k == "like":
        r = common.CLASSES[json.loads(a)].like(z)
        return type(r).__name__
    if k == "signal_transform":
        t = json.loads(a)
        f = pb.signal_transform(lambda x: x * 2)
        if t == "none":
            r = f(z)
        elif t == "ndarray":
            r = f(z, signal_type=np.ndarray)
        else:
            r = f(z, signal_type=common.CLASSES[t])
        return type(r).__name__
    if k == "index":
        kind = json.loads(a)
        lead = 1 if type(z).__name__ == "Signal" else 2
        ix = {"int_time": 3, "int_freq": (slice(None), 0), "neg_step_time": slice(None, None, -1),
              "step_freq": (slice(None), slice(None, None, 2)), "list_time": [0, 1], "ellipsis": Ellipsis,
              "stokes_ok": "I", "stokes_bad": "X", "str_on_other": "Z",
              "bool_mask_trailing": (slice(None),) * lead + ((np.arange(z.shape[lead]) != 1) if z.ndim > lead else np.array([True]),)}[kind]
        r = z[ix]
        if kind == "stokes_ok":
            return type(r).__name__
        return "same" if type(r) is type(z) else type(r).__name__
    raise KeyError(k)


def main():
    os.makedirs(SCR, exist_ok=True)
    out = os.path.join(SCR, "api_%d.ndjson" % os.getpid())
    if os.path.exists(out):
        os.remove(out)
    r = tlc.run("Gen_Api", "MC_Api.cfg", env={"GEN_OUT": out}, timeout=600)
    if not r.ok:
        print("MACHINERY-ERROR Api spec:", r.violation or r.error)
        return 2
    import pipeline_replay as pr
    cases = pr.load(out)
    os.remove(out)
    bad, n = [], 0
    for c in cases:
        z = build(c["obj"]["cls"], c["obj"]["ndim"])
        k, a = c["call"]["k"], c["call"]["a"]
        exp_st, exp_v = c["out"]["st"], c["out"]["v"]
        try:
            got = ("ok", perform(z, k, a))
        except Exception as e:  # noqa
            got = ("err", type(e).__name__)
        n += 1
        ev = json.loads(exp_v) if exp_v.startswith('"') else int(exp_v)
        if got[0] != exp_st or (got[1] != ev and not (exp_st == "err" and ev == "ValueError" and got[1] == "InvalidSignalError")):
            bad.append("%s(ndim=%d).%s(%s): spec %s %s, real %s %s" % (c["obj"]["cls"], c["obj"]["ndim"], k, a, exp_st, ev, got[0], got[1]))
    rep = {"spec": "Api.tla", "states": r.distinct, "transitions": r.states, "replayed": n, "mismatches": bad[:50]}
    with open(os.path.join(framework.EVID, "extras.json"), "w") as f:
        json.dump(rep, f, indent=1)
    for b in bad[:30]:
        print("EXTRA-MISMATCH", b)
    print("extras: %d calls replayed, %d mismatch(es)" % (n, len(bad)))
    return 3 if bad else 0


if __name__ == "__main__":
    sys.exit(main())
