"""C10 - concatenate is the exact inverse of splitting and refuses non-contiguous pieces
(spec/Concat.tla)."""
import os
import random
from fractions import Fraction

import numpy as np

import tlc
import framework
import c01

SCR = os.path.join(framework.ROOT, ".scratch")


def build_pieces(case, conc):
    import common
    import pipeline_replay as pr
    from common import pb, u
    rs = common.build_root(case["root"], conc)
    ax = case["axis"]
    n = case["root"]["len"] if ax == "time" else case["root"]["nchan"]
    b = [0] + list(case["cuts"]) + [n]
    # the emitted mask describes the pieces AFTER the perturbation; a swap exchanged two entries
    mask = list(case["hasT"])
    if case["pert"][0] == "swap":
        i = case["pert"][1] - 1
        mask[i], mask[i + 1] = mask[i + 1], mask[i]
    pieces = []
    for i in range(len(b) - 1):
        p = rs[b[i]:b[i + 1]] if ax == "time" else rs[:, b[i]:b[i + 1]]
        if not mask[i] and p.start_time is not None:
            p = type(p).like(p, start_time=None)
        pieces.append(p)
    return rs, pieces


class Skip(Exception):
    pass


def perturb(pieces, pert, case):
    import common
    from common import pb, u
    k, i = pert[0], pert[1] - 1
    if k == "none":
        return pieces
    ps = list(pieces)
    p = ps[i]
    if k in ("shift+1", "t0mismatch"):
        ps[i] = type(p).like(p, start_time=p.start_time + p.dt)
    elif k == "shift-1":
        ps[i] = type(p).like(p, start_time=p.start_time - p.dt)
    elif k == "swap":
        ps[i], ps[i + 1] = ps[i + 1], ps[i]
    elif k == "rate2":
        ps[i] = type(p).like(p, sample_rate=p.sample_rate * 2)
    elif k == "ratefine":
        ps[i] = type(p).like(p, sample_rate=p.sample_rate * (1 + 2.0 ** -10))
    elif k == "rateunit":
        q = p.sample_rate
        other = {u.mHz: u.Hz, u.Hz: u.kHz, u.kHz: u.MHz, u.MHz: u.kHz, u.GHz: u.MHz}.get(q.unit)
        if other is None:
            raise Skip("no neighbouring unit")
        ps[i] = type(p).like(p, sample_rate=q.value * other)        # the same number, another unit
    elif k == "align":
        ps[i] = type(p).like(p, freq_align="bottom" if p.freq_align == "center" else "center")   # same centre, labels move by cbw/2
    elif k == "cls":
        other = {"RadioSignal": pb.IntensitySignal, "IntensitySignal": pb.RadioSignal,
                 "FullStokesSignal": pb.IntensitySignal, "BasebandSignal": pb.RadioSignal,
                 "DualPolarizationSignal": pb.BasebandSignal}[type(p).__name__]
        try:
            ps[i] = other.like(p)
        except Exception:
            raise Skip("cannot build the other class from this data")
    elif k == "cbw":
        ps[i] = type(p).like(p, chan_bw=p.chan_bw * 2)
    elif k == "labels+1":
        ps[i] = type(p).like(p, center_freq=p.center_freq + p.chan_bw)
    elif k == "labels-1":
        ps[i] = type(p).like(p, center_freq=p.center_freq - p.chan_bw)
    else:
        raise KeyError(k)
    return ps


def check_case(case, conc, axis_form):
    """returns list of (key, desc)"""
    import common
    import pipeline_replay as pr
    from common import pb, u
    out = []
    rs, pieces = build_pieces(case, conc)
    try:
        ps = perturb(pieces, case["pert"], case)
    except Skip:
        return None
    if case["pert"][0] == "none" and len(ps) > 1 and (len(case["cuts"]) + case["root"]["len"]) % 2 == 0:
        # the same quantities written in another unit are the same quantities (4 kHz == 4000 Hz)
        ps = list(ps)
        p = ps[-1]
        kw = {}
        for at in ("sample_rate", "center_freq", "chan_bw"):
            q = getattr(p, at, None)
            if q is not None and not (at == "chan_bw" and isinstance(p, pb.BasebandSignal)):
                q2 = q.to({u.Hz: u.kHz, u.kHz: u.Hz, u.MHz: u.Hz, u.GHz: u.MHz, u.mHz: u.Hz}.get(q.unit, u.Hz))
                if common.hz(q2) == common.hz(q):
                    kw[at] = q2
        if kw:
            ps[-1] = type(p).like(p, **kw)
    snaps = [common.snapshot(p) for p in ps]
    ax = case["axis"]
    axis = {"time": [0, "time"], "freq": [1, "freq"]}[ax][axis_form]
    desc = "concatenate(%d pieces of %s len=%d nchan=%d cuts=%s hasT=%s pert=%s, axis=%r) [%s]" % (
        len(ps), case["root"]["cls"], case["root"]["len"], case["root"]["nchan"], case["cuts"], case["hasT"],
        case["pert"], axis, conc.name)
    try:
        r = pb.concatenate(ps, axis=axis)
        err = None
    except Exception as e:  # noqa
        r, err = None, e
    # Concat!Associative on the real code: every grouping into consecutive groups, each joined first, then the
    # results joined, gives the flat result or the flat refusal
    if len(ps) == 3:
        for g in ((2, 1), (1, 2)):
            grp = [ps[:2], ps[2:]] if g == (2, 1) else [ps[:1], ps[1:]]
            try:
                inner = [pb.concatenate(x, axis=axis) if len(x) > 1 else x[0] for x in grp]
                r2, err2 = pb.concatenate(inner, axis=axis), None
            except Exception as e:  # noqa
                r2, err2 = None, e
            if err is None and err2 is not None:
                out.append(("C10", "concat:grouping-refused", "%s: grouping %s raised %r while the flat call joins" % (desc, g, err2)))
            elif err is not None and err2 is None and case["err"]:
                out.append(("C10", "concat:grouping-joined-bad:%s" % case["pert"][0],
                            "%s: grouping %s was joined while the pieces must be refused" % (desc, g)))
            elif err is None and err2 is None:
                same = (type(r2) is type(r) and r2.shape == r.shape and
                        np.array_equal(common.materialise(r2), common.materialise(r)) and
                        common.hz(r2.sample_rate) == common.hz(r.sample_rate) and
                        (r2.start_time is None) == (r.start_time is None) and
                        (r.start_time is None or abs(common.time_days(r2.start_time) - common.time_days(r.start_time)) <= 3 * pr.DAYTOL))
                if same and isinstance(r, pb.RadioSignal):
                    a, b = common.hz(r.channel_freqs), common.hz(r2.channel_freqs)
                    sc = max([abs(x) for x in a] + [common.hz(r.chan_bw) * len(a)])
                    same = len(a) == len(b) and all(pr.close(x, y, sc) for x, y in zip(a, b))
                if not same:
                    out.append(("C10", "concat:grouping-differs", "%s: grouping %s gives another result than the flat call" % (desc, g)))
    for p, sn in zip(ps, snaps):
        if common.snap_diff(sn, common.snapshot(p)):
            out.append(("C14", "concat:input-modified", "input piece modified by " + desc))
    if case["err"]:
        if err is None:
            out.append(("C10", "concat:joined-bad:%s" % case["pert"][0], "%s was joined instead of refused: %r" % (desc, r)))
        return out
    if err is not None:
        out.append(("C10", "concat:refused-good", "%s raised %r" % (desc, err)))
        return out
    exp = case["res"]
    bad = common.contract(r)
    if bad:
        out.append(("C16", "concat:contract", "%s: result violates contract %s" % (desc, bad)))
    if type(r) is not type(rs):
        out.append(("C10", "concat:type", "%s: type %s" % (desc, type(r).__name__)))
    if r.shape != rs.shape or not np.array_equal(common.materialise(r), common.materialise(rs)):
        out.append(("C10", "concat:data", "%s: data differ from the original (shape %s vs %s)" % (desc, r.shape, rs.shape)))
    if common.hz(r.sample_rate) != common.hz(rs.sample_rate):
        out.append(("C10", "concat:rate", "%s: sample_rate %s" % (desc, r.sample_rate)))
    if exp["hasT"]:
        if r.start_time is None:
            out.append(("C10", "concat:start-lost", "%s: start_time lost" % desc))
        else:
            d = abs(common.time_days(r.start_time) - common.time_days(rs.start_time))
            span = Fraction(len(rs)) / common.hz(rs.sample_rate) / common.DAY
            if d > 3 * pr.DAYTOL + span * 8 * pr.ULP:
                out.append(("C10", "concat:start", "%s: start_time off by %.3g s" % (desc, float(d * common.DAY))))
    elif r.start_time is not None:
        out.append(("C10", "concat:start-invented", "%s: start_time %s from pieces without one" % (desc, r.start_time)))
    if isinstance(rs, pb.RadioSignal):
        rl, gl = pr.root_labels(rs), common.hz(r.channel_freqs)
        scale = max([abs(x) for x in rl] + [common.hz(rs.chan_bw) * len(rl)])
        if len(rl) != len(gl) or not all(pr.close(x, y, scale) for x, y in zip(rl, gl)):
            out.append(("C10", "concat:labels", "%s: labels %s != original %s" % (desc, [float(x) for x in gl], [float(x) for x in rl])))
        if common.hz(r.chan_bw) != common.hz(rs.chan_bw):
            out.append(("C10", "concat:chan_bw", "%s: chan_bw %s" % (desc, r.chan_bw)))
    return out


def long_piece_cases(chk, rnd):
    """The spec's one-sample gap / overlap cases (Concat!CanPerturb, shift+-1) concretised on LONG pieces:
    contiguity must be judged to a fraction of a sample however many samples precede the piece.  Dask-backed
    data, so nothing is allocated."""
    import common
    from common import pb, u, da
    n_cases = 0
    # (3 Hz, 7 Hz, 3 mHz: the sample period is not representable, so n/rate and n*(1/rate) differ by an ulp, which
    # after days of signal is more than the contiguity tolerance)
    for rate in ((1, u.kHz), (1, u.MHz), (2, u.GHz), (0.5, u.Hz), (3, u.Hz), (7, u.Hz), (3, u.mHz), (0.3, u.kHz)):
        for n1, n2 in ((200000, 7), (3000001, 1000), (12345678, 2)):
            for shift in (0, 1, -1, 3, -2):
                ep = common.EPOCHS[0]
                ep = type(ep)(ep.jd1, ep.jd2, format="jd", scale="tai")       # uniform time scale for long spans
                z = pb.RadioSignal(da.zeros((n1 + n2, 2), chunks=(n1 + n2, 2), dtype="float32"), sample_rate=rate[0] * rate[1],
                                   start_time=ep, center_freq=1 * u.GHz, chan_bw=1 * u.MHz)
                a, b = z[:n1], z[n1:]
                if shift:
                    b = type(b).like(b, start_time=b.start_time + shift * b.dt)
                desc = "concatenate([%d samples, %d samples shifted by %+d sample(s)]) at %s" % (n1, n2, shift, z.sample_rate)
                try:
                    r = pb.concatenate([a, b])
                    err = None
                except Exception as e:  # noqa
                    r, err = None, e
                n_cases += 1
                case = {"kind": "long", "rate": str(z.sample_rate), "n1": n1, "n2": n2, "shift": shift}
                if shift and err is None:
                    chk.violation("concat:joined-bad:shift-long", desc + " was joined instead of refused", case)
                if not shift:
                    if err is not None:
                        chk.violation("concat:refused-good:long", desc + " raised %r" % (err,), case)
                    elif len(r) != n1 + n2 or abs(common.time_days(r.start_time) - common.time_days(z.start_time)) > 0:
                        chk.violation("concat:start:long", desc + ": wrong length / start time", case)
    chk.validated += n_cases
    chk.notes["long_piece_cases"] = n_cases


def load(path):
    import pipeline_replay as pr
    return pr.load(path)


def run(chk):
    import common
    rnd = random.Random(chk.seed)
    thorough = chk.tier == "thorough"
    r = tlc.run("MC_Concat", "MC_Concat_full.cfg" if thorough else "MC_Concat_quick.cfg", timeout=3000)
    chk.mc_must_hold("MC_Concat", r)
    chk.exhaustive = r.ok
    os.makedirs(SCR, exist_ok=True)
    out = os.path.join(SCR, "C10_gen_%d.ndjson" % os.getpid())
    if os.path.exists(out):
        os.remove(out)
    r = tlc.run("Gen_Concat", "Gen_Concat_full.cfg" if thorough else "Gen_Concat_quick.cfg",
                env={"GEN_OUT": out}, timeout=3000)
    chk.add_tlc("Gen_Concat", r)
    cases = load(out)
    os.remove(out)
    limit = 60000 if thorough else 3000
    if len(cases) > limit:
        by = {}
        for c in cases:
            by.setdefault((c["pert"][0], c["axis"]), []).append(c)
        per = max(1, limit // len(by))
        cases = []
        for k in sorted(by):
            cases += by[k] if len(by[k]) <= per else rnd.sample(by[k], per)
    concs = common.concs(8 if thorough else 4, rnd)
    kinds, skipped = {}, 0
    for i, case in enumerate(cases):
        conc = concs[i % len(concs)]
        res = check_case(case, conc, i % 2)
        if res is None:
            skipped += 1
            continue
        chk.validated += 1
        kinds[case["pert"][0]] = kinds.get(case["pert"][0], 0) + 1
        for prop, key, desc in res:
            if prop == chk.pid:
                chk.violation(key, desc, {"kind": "concat", "case": case, "conc_index": i % len(concs),
                                          "nconc": len(concs), "seed": chk.seed, "axis_form": i % 2})
        if i < 3:
            chk.sample({k: case[k] for k in ("root", "axis", "cuts", "hasT", "pert", "err")})
    long_piece_cases(chk, rnd)
    chk.notes["cases_by_perturbation"] = kinds
    chk.notes["skipped"] = skipped
    chk.notes["concretisations"] = [c.name for c in concs]
    chk.assumptions += ["perturbations are at least one sample / one channel / 2^-10 relative in rate, as the property states",
                        "TLC explores spec/Concat.tla exhaustively only within the stated constants"]


def replay(doc):
    import common
    c = doc["case"]
    if c.get("kind") == "long":
        chk = framework.Check("C10", "quick", 0)
        chk._known = []
        long_piece_cases(chk, random.Random(0))
        bad = [v for v in chk.violations if v[2] == c]
        for v in bad:
            print("VIOLATION property=C10 replay=(this case)  # %s: %s" % (v[0], v[1]))
        if not bad:
            print("case passes")
        return 1 if bad else 0
    concs = common.concs(c["nconc"], random.Random(c["seed"]))
    res = check_case(c["case"], concs[c["conc_index"]], c["axis_form"]) or []
    res = [r for r in res if r[0] == doc["property"]]
    for r in res:
        print("VIOLATION property=%s replay=(this case)  # %s: %s" % r)
    if not res:
        print("case passes")
    return 1 if res else 0
